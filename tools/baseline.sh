#!/bin/bash
# the repository's pinned baseline with the (unused) hook guard off: configure if needed, build, run ctest
B=/repo/_build
[ -f $B/build.ninja ] || cmake -S /repo -B $B -G Ninja -DCMAKE_BUILD_TYPE=RelWithDebInfo -DBUILD_TESTING=ON -DCMAKE_CXX_FLAGS="-Wno-error" -DGCH_SMALL_VECTOR_ENABLE_TESTS=ON -DGCH_SMALL_VECTOR_TEST_ENABLE_REL_OPS_TESTS=ON > /dev/null
cmake --build $B -j"$(nproc)" -- -k0 > /dev/null 2>&1
ctest --test-dir $B -j8 --timeout 900
