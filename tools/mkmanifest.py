#!/usr/bin/env python3
"""Regenerates /verif/MANIFEST.json from the table below (kept valid at all times)."""
import json, os
ROOT = os.path.normpath(os.path.join(os.path.dirname(os.path.abspath(__file__)), '..'))

TECH = 'contract-based deductive verification: CBMC code contracts (goto-instrument --dfcc) on C extracted each run from the clang AST of the instantiated header'
NOTE = ('Assumed: the environment contracts in /verif/env (element type, allocator, iterators, std algorithms), the lowering rules of '
        '/verif/emit (DESIGN.md 3.3), clang 14 + CBMC 6.11; raw-pointer allocators; configurations listed in evidence; '
        'history induction is a paper step over per-call proofs.')

CLAIMS = {
 'C02': ('proof', 'Representation invariant WF/CELLS/BLOCK required and re-established (normal and exceptional exit) by every function under contract; shrink_to_fit capacity clause.', '5.2'),
 'C03': ('proof', 'Lifetime rules are preconditions of the element operations, asserted at every call site of the extracted code for an arbitrary watched cell; exactness clause EXACT on every exit.', '5.3'),
 'C04': ('proof', 'allocate/deallocate contracts + block ledger exactness EXACTB on every exit; no-allocation clauses when the result fits.', '5.4'),
 'C05': ('proof', 'exc ==> SAME(self) on the strong-guarantee operations, with every element/allocator operation an independent nondeterministic throw point; throwing-move configuration included.', '5.5'),
 'C06': ('proof', 'exc ==> invariant + exactness for all participants on every function under contract, nested handlers included.', '5.6'),
 'C10': ('proof', 'result fits ==> data()/capacity() unchanged and no allocator traffic; reserve contract; at most one allocation per growing call.', '5.10'),
 'C11': ('proof', 'lvalue-argument contracts have no non-aliasing precondition; the post-state is stated against the argument\'s entry value.', '5.11'),
 'C12': ('proof', 'length_error clauses, allocate(n<=max_size) call-site obligation, bit-precise overflow/conversion checks on every extracted arithmetic node.', '5.12'),
 'C13': ('proof', 'byte-frame obligations (w_ok/r_ok of every element access), requirement-minimality masks (ONLY_KINDS) on the leaves, the trivially copyable twin and the non-assignable archetype configurations under the same contracts; conversions: for every scalar pair for which the header\'s own traits select the byte-copy path, CBMC decides bytes(static_cast<To>(f)) == bytes(f) for all f (loop-free, full domain), plus compile-acceptance of convertible sources under every standard (native value comparison is a supporting run).', '5.13'),
 'C14': ('proof', 'new capacity >= needed and >= 1.5x old (saturating) on every reallocating function; arithmetic leaf proved for the full 64-bit range.', '5.14'),
 'C07': ('proof', 'Allocator identity is ghost state: constructors, copy/move assignment and swap contracts state get_allocator() per propagation trait (configurations main, aprop, aeq, pocs and the other trait combinations in the thorough tier); BLOCK ties every buffer to the current allocator.', '5.7'),
 'C09': ('proof', 'steal_permitted (written from the property) ==> data() is the source\'s old data(), no element operation (ONLY_KINDS(0)), no allocator traffic, source default-state; otherwise element-wise; same-capacity and cross-capacity (pair_lt/pair_gt) move assignment, move construction, swap.', '5.9'),
 'C15': ('proof', 'Iterator protocols as preconditions of the iterator models, asserted at every call site of the extracted code: forward ranges never dereferenced/advanced at or beyond last, range length without truncation, k-th element from k-th position (loop contracts, unbounded); generator constructor: exactly count calls in index order, element k is the k-th value (loop contract, unbounded). Single-pass ranges (append, strong append, assign, range constructor, insert at end): each position dereferenced exactly once and advanced exactly once in order, no stale copy, never at/beyond last, all positions consumed, size accounting - their loops reallocate inside the body and are BOUNDED STAND-INS (3 positions, unwinding assertions), listed under bounded_stand_ins in the evidence and not counted as proved; the range constructor (no loop of its own) is proved unbounded against the bounded contract of append_range.', '5.15'),
 'C18': ('proof', 'every extracted function whose compiler-evaluated exception specification is noexcept carries the obligation that no exception leaves it (r8); for the move constructor, the converting move constructor and assign(&&) from another inline capacity, allocator constructor, operator=(&&), assign(&&), swap, clear and the observers the declared specification (evaluated by the compiler through the noexcept operator) is compared with the README condition in every allocator-trait / element / N==0 configuration, and the documented condition implies !exc on the body; std::allocator, iterator-trait and nested-type facts are not covered.', '5.18'),
 'C17': ('proof', 'The header is extracted under -std=c++11/14/17/20/23 by the same compiler front end; per function, identical extracted text (with everything it inlines) shares the C++20 proof, differing text is proved against the SAME contract - same contract under every standard is the statement of the property. GCC and code generation are out of reach.', '5.17'),
 'C08': ('proof', 'configuration class CONSTEVAL (std::is_constant_evaluated () true, nothing throws, the container always owns an allocator block): the extracted constant-evaluation branches are proved against the SAME contracts as the run-time paths (sizes, values, returned positions, growth), with the lifetime/ledger/pointer obligations standing in for the evaluator\'s UB and leak detection, and memcpy/memmove unreachable; the compiler\'s evaluator itself is not modelled; public wrappers and two-container operations are not in the class yet.', '5.8'),
 'C16': ('proof', 'the six relational operators (C++11-17 forms; == also in C++20), non-member size/ssize/empty/data/begin/end/swap/erase under contract: the std algorithms they call are environment summaries that record their arguments and return an uninterpreted element-consistent result, so each contract pins down which algorithm runs on which ranges in which order and how the result is combined - the definition of the std::vector operators; equality of two containers implies equal watched elements at equal indices. Not covered: <=>, cross-capacity operand pairs, erase_if, reverse-iterator accessors.', '5.16'),
 'C01': ('proof', 'std::vector post-state (size, returned position, prefix preserved, new elements equal the argument) as ensures clauses over Skolemised cells, per operation under contract.', '5.1'),
}

NA = {
 'C20': 'behaviour of a Python/natvis script inside a debugger: no contract on the C++ functions can express or decide it (DESIGN.md 5.20)',
}

def main():
    checks = []
    checks.append({
        'property_id': 'C19',
        'quick_cmd': 'python3 c19/c19.py --tier quick', 'thorough_cmd': 'python3 c19/c19.py --tier thorough',
        'evidence_file': '/verif/evidence/C19.json', 'engine': 'cbmc-c19',
        'level_claimed': {'category': 'proof', 'text': 'default_buffer_size::value against "largest count whose object fits in 64 bytes", decided by CBMC over the property\'s whole finite domain, on the initialiser expressions extracted from the header each run, modulo an assumed ABI size contract validated against both compilers on a static_assert grid; inline_capacity(), N==0 object size and buffer alignment as compiled static_asserts.', 'design_ref': 'DESIGN.md 5.19'},
        'level_note': 'Assumed: the Itanium-ABI size contract in /verif/c19/abi_model.h (validated, not proved), textual extraction of two initialisers (token-checked), CBMC 6.11. Two known findings (KF-C19-1, KF-C19-2).',
        'technique': 'contract-based: CBMC decides an extracted constant-expression function against its specification under an assumed, grid-validated ABI contract',
    })
    for pid in sorted(CLAIMS):
        cat, text, ref = CLAIMS[pid]
        checks.append({
            'property_id': pid,
            'quick_cmd': 'python3 verif.py check %s --tier quick' % pid,
            'thorough_cmd': 'python3 verif.py check %s --tier thorough' % pid,
            'evidence_file': '/verif/evidence/%s.json' % pid,
            'replay_cmd_template': 'python3 verif.py replay {path}',
            'engine': 'cbmc-dfcc',
            'level_claimed': {'category': cat, 'text': text, 'design_ref': 'DESIGN.md ' + ref},
            'level_note': NOTE,
            'technique': TECH,
        })
    m = {
        'version': 1,
        'setup_cmd': 'true',
        'hooks': {'guard': 'GHARVEYMN_SMALL_VECTOR_VERIF', 'enable': 'no hooks are needed: contracts live in /verif/contracts and are spliced into the extracted C text',
                  'baseline_off_cmd': 'bash /verif/tools/baseline.sh', 'source_commits': [], 'add_only': True},
        'engines': [{'name': 'cbmc-c19', 'path': '/verif/c19/c19.py', 'serves_properties': ['C19'], 'kind_free_text': 'extraction of default_buffer_size + ABI contract + CBMC'}, {'name': 'cbmc-dfcc', 'path': '/verif/verif.py', 'serves_properties': sorted(CLAIMS),
                     'kind_free_text': 'clang JSON AST extraction -> C -> CBMC 6.11 code contracts (DFCC), per-function modular proofs'}],
        'checks': checks,
        'not_applicable': [{'property_id': k, 'reason': v} for k, v in sorted(NA.items()) if k not in CLAIMS and k != 'C19'],
        'notes': 'See DESIGN.md. Exit 2 of a check means undecided (tool limit / extraction abort), never a violation.',
    }
    json.dump(m, open(os.path.join(ROOT, 'MANIFEST.json'), 'w'), indent=1)

if __name__ == '__main__':
    main()
