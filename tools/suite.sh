#!/bin/bash
# usage: suite.sh <worktree> [jobs]   -- configure, build and run the pinned suite of a worktree; prints "SUITE pass=<n> fail=<n>"
WT=$1; J=${2:-8}
B=$WT/_build
cmake -S "$WT" -B "$B" -G Ninja -DCMAKE_BUILD_TYPE=RelWithDebInfo -DBUILD_TESTING=ON -DCMAKE_CXX_FLAGS="-Wno-error" \
  -DGCH_SMALL_VECTOR_ENABLE_TESTS=ON -DGCH_SMALL_VECTOR_ENABLE_BENCHMARKS=OFF -DGCH_SMALL_VECTOR_TEST_ENABLE_REL_OPS_TESTS=ON > "$WT/_conf.log" 2>&1 || { echo "CONFIGURE FAILED"; tail -20 "$WT/_conf.log"; exit 2; }
cmake --build "$B" -j"$J" -- -k0 > "$WT/_build.log" 2>&1; brc=$?
echo "build rc=$brc"
[ $brc -eq 0 ] || grep -E "error|FAILED" "$WT/_build.log" | head -20
ctest --test-dir "$B" -j8 --timeout 900 > "$WT/_test.log" 2>&1; trc=$?
tail -5 "$WT/_test.log"
p=$(grep -cE "Test +#[0-9]+: .*Passed" "$WT/_test.log"); f=$(grep -cE "Test +#[0-9]+: .*(Failed|\*\*\*)" "$WT/_test.log")
echo "SUITE pass=$p fail=$f build_rc=$brc ctest_rc=$trc"
