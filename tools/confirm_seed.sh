#!/bin/bash
# usage: confirm_seed.sh <worktree> : confirm a seeded change (patch applied in the worktree, _build present):
#  1. the worktree diff equals _seed/patch.diff   2. the suite builds and passes with the change
#  3. the demo fails with the change and passes on the pristine header
WT=$1
cd "$WT" || exit 2
git diff -- source/include > _seed/_cs_diff.txt
if ! diff -q _seed/_cs_diff.txt _seed/patch.diff > /dev/null; then echo "NOTE: worktree diff differs from patch.diff (checking patch applies to pristine)"; fi
# (no git stash here: the stash stack is shared by all worktrees of /repo, parallel confirmations mixed their changes up once)
mkdir -p _seed/orig/gch; git show HEAD:source/include/gch/small_vector.hpp > _seed/orig/gch/small_vector.hpp
(T=$(mktemp -d); mkdir -p $T/source/include/gch; cp _seed/orig/gch/small_vector.hpp $T/source/include/gch/; cd $T && patch -p1 -s --dry-run < "$WT/_seed/patch.diff" && echo "patch applies to pristine: yes"; rm -rf $T)
cmake --build _build -j8 -- -k0 > _build_confirm.log 2>&1; echo "build rc=$?"
ctest --test-dir _build -j8 --timeout 900 > _test_confirm.log 2>&1; echo "ctest rc=$? $(grep -E 'tests passed' _test_confirm.log)"
CMD=$(python3 -c "import json;print(json.load(open('_seed/meta.json'))['demo_compile'])")
echo "demo compile: $CMD"
eval "$CMD" && ./_seed/demo > _seed/demo_with.log 2>&1; echo "demo WITH change rc=$?"
mkdir -p _seed/orig/gch; git show HEAD:source/include/gch/small_vector.hpp > _seed/orig/gch/small_vector.hpp
CMD2=$(echo "$CMD" | sed "s#-I *$WT/source/include#-I $WT/_seed/orig#; s#-o *$WT/_seed/demo#-o $WT/_seed/demo_orig#")
eval "$CMD2" && ./_seed/demo_orig > _seed/demo_without.log 2>&1; echo "demo WITHOUT change rc=$?"
