#!/usr/bin/env python3
"""Runs the quick (or thorough) check of each stored seeded change against a scratch copy of /repo with the change applied
(VERIF_REPO), evidence and replays redirected to a scratch directory.  usage: seed_sweep.py [--tier quick] [seed ...]"""
import os, sys, json, subprocess, tempfile, shutil, time
ROOT = os.path.normpath(os.path.join(os.path.dirname(os.path.abspath(__file__)), '..'))
def main():
    args = sys.argv[1:]; tier = 'quick'
    if '--tier' in args:
        i = args.index('--tier'); tier = args[i + 1]; del args[i:i + 2]
    seeds = args or sorted(os.listdir(os.path.join(ROOT, 'seeded')))
    manifest = {c['property_id']: c for c in json.load(open(os.path.join(ROOT, 'MANIFEST.json')))['checks']}
    rows = []
    for sd in seeds:
        d = os.path.join(ROOT, 'seeded', sd)
        meta = json.load(open(os.path.join(d, 'meta.json')))
        prop = meta['property']
        props = meta.get('also_check', [])
        tmp = tempfile.mkdtemp(prefix='seedsweep_')
        try:
            shutil.copytree('/repo/source', os.path.join(tmp, 'repo', 'source'))
            r = subprocess.run(['patch', '-p1', '-s', '-i', os.path.join(d, 'patch.diff')], cwd=os.path.join(tmp, 'repo'), capture_output=True, text=True)
            if r.returncode != 0:
                rows.append((sd, prop, 'patch does not apply', '')); continue
            for pr in [prop] + props:
                if pr not in manifest:
                    rows.append((sd, pr, 'not claimed', '')); continue
                cmd = manifest[pr]['%s_cmd' % tier]
                env = dict(os.environ, VERIF_REPO=os.path.join(tmp, 'repo'), VERIF_OUT=os.path.join(tmp, 'out'))
                t0 = time.time()
                rr = subprocess.run(cmd, shell=True, cwd=ROOT, env=env, capture_output=True, text=True)
                vio = [l for l in rr.stdout.split('\n') if l.startswith('VIOLATION')]
                det = [l.strip() for l in rr.stdout.split('\n') if l.startswith('  obligation') or l.startswith('  configuration') or l.startswith('  ')][:3]
                rows.append((sd, pr, 'exit %d, %d VIOLATION line(s), %.0fs' % (rr.returncode, len(vio), time.time() - t0), ' | '.join(det)[:400]))
                print(rows[-1], flush=True)
        finally:
            shutil.rmtree(tmp, ignore_errors=True)
    print('\n== summary')
    for r in rows:
        print('%-6s %-4s %s' % r[:3])
main()
