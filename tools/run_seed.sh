#!/bin/bash
# usage: run_seed.sh <patch.diff> <cfg> <fn...> : prove functions on a scratch copy of /repo's header with the patch applied
P=$1; CFG=$2; shift 2
D=$(mktemp -d /tmp/seedrun_XXXX)
mkdir -p $D/source/include/gch
cp /repo/source/include/gch/small_vector.hpp $D/source/include/gch/
(cd $D && patch -p1 -s < "$P") || { echo "patch failed"; rm -rf $D; exit 2; }
VERIF_REPO=$D python3 /verif/verif.py prove $CFG "$@" 2>&1 | cut -c1-260
rm -rf $D
