/* ASSUMED ABI contract (Itanium C++ ABI, x86-64, GCC/Clang): sizeof (gch::small_vector<T, n, A>) as a function of
 * n, sizeof T (szT), alignof T (alT), the allocator's state (a bytes, alignment aa; a == 0: empty, EBO applies) and the width w
 * of A::size_type.  Validated on every run against the installed compilers by a generated static_assert grid (c19.py).
 *   small_vector -> small_vector_base -> allocator_interface -> allocator_inliner (-> A, or member m_alloc)
 *   member m_data: small_vector_data : small_vector_data_base { T *ptr; size_type cap; size_type size; } + inline_storage<T, n>
 * small_vector_data_base has private members (not a POD for layout), so the inline storage may start in its tail padding. */
#ifndef VERIF_ABI_MODEL_H
#define VERIF_ABI_MODEL_H
static unsigned long abi_roundup (unsigned long x, unsigned long al) { return (x + al - 1) / al * al; }
static unsigned long abi_max (unsigned long x, unsigned long y) { return x > y ? x : y; }
static unsigned long abi_sizeof_sv (unsigned long n, unsigned long szT, unsigned long alT, unsigned long a, unsigned long aa, unsigned long w)
{
  unsigned long data_align = (n != 0) ? abi_max (8, alT) : 8;
  unsigned long hdr = 8 + 2 * w;                                   /* data size of small_vector_data_base */
  unsigned long data_size = (n != 0) ? abi_roundup (abi_roundup (hdr, alT) + n * szT, data_align) : abi_roundup (hdr, 8);
  unsigned long off = abi_roundup (a, data_align);                /* a == 0: empty base optimisation */
  return abi_roundup (off + data_size, abi_max (data_align, a != 0 ? aa : 1));
}
#endif
