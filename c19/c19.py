#!/usr/bin/env python3
"""C19 check: default inline capacity.  (1) extracts the constant expressions of default_buffer_size from the header's AST,
(2) validates the assumed ABI size contract (abi_model.h) against the installed compilers by a static_assert grid,
(3) lets CBMC decide `value == largest count whose object fits in 64 bytes` over the property's whole domain (finite, complete)."""
import os, sys, re, json, subprocess, tempfile, shutil, time
ROOT = os.path.normpath(os.path.join(os.path.dirname(os.path.abspath(__file__)), '..'))
OUT = os.environ.get('VERIF_OUT', ROOT)      # evidence/ and replays/ go here (seed sweeps redirect them)
sys.path.insert(0, os.path.join(ROOT, 'emit'))
import astload
REPO = os.environ.get('VERIF_REPO', '/repo')
HDR = REPO + '/source/include/gch/small_vector.hpp'

def extract():
    """the initialisers of default_buffer_size::{ideal_total, ideal_buffer, value}, as source text -> C"""
    tu = os.path.join(ROOT, 'inst', 'cfg_main.cpp')
    objs = astload.dump(tu, ['-std=c++17', '-I', REPO + '/source/include', '-I', os.path.join(ROOT, 'inst'), '-DNDEBUG', '-DVT_N=3', '-Wno-everything'], filt='gch::default_buffer_size')
    src = open(HDR, 'rb').read()
    found = {}
    def walk(n, in_pattern):
        k = n.get('kind')
        if k == 'VarDecl' and n.get('name') in ('ideal_total', 'ideal_buffer', 'value') and n.get('inner') and in_pattern:
            init = n['inner'][0]
            r = init.get('range', {})
            b = r.get('begin', {}); e = r.get('end', {})
            bo = b.get('offset', b.get('expansionLoc', {}).get('offset')); eo = e.get('offset', e.get('expansionLoc', {}).get('offset')); tl = e.get('tokLen', e.get('expansionLoc', {}).get('tokLen', 1))
            if bo is not None and eo is not None and n['name'] not in found:
                found[n['name']] = src[bo:eo + tl].decode()
        for c in n.get('inner', []):
            walk(c, in_pattern or (k == 'ClassTemplateDecl' and n.get('name') == 'default_buffer_size'))
    for o in objs:
        walk(o, o.get('kind') == 'ClassTemplateDecl' and o.get('name') == 'default_buffer_size')
    for nm in ('ideal_buffer', 'value'):
        if nm not in found:
            raise RuntimeError('default_buffer_size::%s not found in the AST (renamed?)' % nm)
    # GCH_SMALL_VECTOR_DEFAULT_SIZE from the preprocessor
    r = subprocess.run(['clang++', '-std=c++17', '-dM', '-E', '-I', REPO + '/source/include', '-x', 'c++', HDR], capture_output=True, text=True)
    m = re.search(r'#define GCH_SMALL_VECTOR_DEFAULT_SIZE (\d+)', r.stdout)
    if not m:
        raise RuntimeError('GCH_SMALL_VECTOR_DEFAULT_SIZE not defined')
    total = int(m.group(1))
    def to_c(e):
        e = re.sub(r'\s+', ' ', e)
        e = re.sub(r'sizeof\s*\(\s*value_type\s*\)', '((unsigned long) SZ_T)', e)
        e = re.sub(r'sizeof\s*\(\s*empty_small_vector\s*\)', '((unsigned long) SZ_EMPTY)', e)
        e = re.sub(r'\bideal_total\b', '((unsigned) %du)' % total, e)
        left = re.sub(r'\(unsigned long\)|\(unsigned\)|SZ_T|SZ_EMPTY|ideal_buffer|\d+u?|[\s()<>=?:/*+\-]', '', e)
        if left:
            raise RuntimeError('unexpected token(s) %r in default_buffer_size initialiser %r' % (left, e))
        return e
    return total, to_c(found['ideal_buffer']), to_c(found['value']), found

GRID_TMPL = r'''
#include <gch/small_vector.hpp>
#include <cstdint>
template <class T, class S, class St> struct al { using value_type=T; using size_type=S; using difference_type=std::ptrdiff_t; al()=default; template<class U> al(const al<U,S,St>&){}
  T* allocate(std::size_t); void deallocate(T*,std::size_t); St state; template<class U> struct rebind{using other=al<U,S,St>;}; };
template <class T, class S> struct al<T,S,void> { using value_type=T; using size_type=S; using difference_type=std::ptrdiff_t; al()=default; template<class U> al(const al<U,S,void>&){}
  T* allocate(std::size_t); void deallocate(T*,std::size_t); template<class U> struct rebind{using other=al<U,S,void>;}; };
template<class T,class U,class S,class St> bool operator==(const al<T,S,St>&,const al<U,S,St>&); template<class T,class U,class S,class St> bool operator!=(const al<T,S,St>&,const al<U,S,St>&);
template <unsigned SZ, unsigned AL> struct alignas(AL) E { unsigned char b[SZ]; };
template <unsigned N> struct bytes { unsigned char b[N]; };
template <class St> struct stsz { static constexpr unsigned long s = sizeof(St), a = alignof(St); }; template <> struct stsz<void> { static constexpr unsigned long s = 0, a = 1; };
constexpr unsigned long rup(unsigned long x, unsigned long al){ return (x+al-1)/al*al; }
constexpr unsigned long mx(unsigned long x, unsigned long y){ return x>y?x:y; }
constexpr unsigned long model(unsigned long n, unsigned long szT, unsigned long alT, unsigned long a, unsigned long aa, unsigned long w){
  return rup(rup(a, n? mx(8,alT):8) + (n? rup(rup(8+2*w, alT) + n*szT, mx(8,alT)) : rup(8+2*w, 8)), mx(n? mx(8,alT):8, a? aa:1)); }
#define CHK(SZ,AL,N,S,ST) static_assert(sizeof(gch::small_vector<E<SZ,AL>,N,al<E<SZ,AL>,S,ST>>) == model(N,SZ,AL,stsz<ST>::s,stsz<ST>::a,sizeof(S)), "abi " #SZ " " #AL " " #N " " #S " " #ST);
#define ROW(SZ,AL,S,ST) CHK(SZ,AL,0,S,ST) CHK(SZ,AL,1,S,ST) CHK(SZ,AL,2,S,ST) CHK(SZ,AL,3,S,ST) CHK(SZ,AL,7,S,ST) CHK(SZ,AL,13,S,ST)
#define TYPES(S,ST) ROW(1,1,S,ST) ROW(2,2,S,ST) ROW(3,1,S,ST) ROW(4,4,S,ST) ROW(8,8,S,ST) ROW(12,4,S,ST) ROW(16,16,S,ST) ROW(24,8,S,ST) ROW(32,32,S,ST) ROW(40,8,S,ST) ROW(64,64,S,ST) ROW(72,8,S,ST)
#define ALLOCS(S) TYPES(S,void) TYPES(S,bytes<1>) TYPES(S,bytes<12>) TYPES(S,bytes<24>) TYPES(S,short) TYPES(S,int) TYPES(S,void*) TYPES(S,bytes<3>)
ALLOCS(std::uint8_t) ALLOCS(std::uint16_t) ALLOCS(std::uint32_t) ALLOCS(std::uint64_t)
// the default argument itself and the documented observations
static_assert(gch::small_vector<int, 5>::inline_capacity () == 5, "inline_capacity reports the template argument");
static_assert(sizeof(gch::small_vector<E<4,4>,0,al<E<4,4>,std::uint64_t,void>>) == sizeof(void*) + 2*sizeof(std::uint64_t), "N == 0, stateless allocator: pointer + two size_type");
static_assert(alignof(gch::small_vector<E<32,32>,2,al<E<32,32>,std::uint64_t,void>>) >= 32, "inline buffer suitably aligned");
int main(){}
'''

HARNESS = r'''
#include "abi_model.h"
unsigned long nondet_ulong (void);
static unsigned dbs_value (unsigned long SZ_T, unsigned long SZ_EMPTY)
{
  unsigned ideal_buffer = (unsigned) (%(ideal_buffer)s);
  unsigned value = (unsigned) (%(value)s);
  return value;
}
static int pow2 (unsigned long x) { return x == 1 || x == 2 || x == 4 || x == 8 || x == 16 || x == 32 || x == 64; }
void harness (void)
{
  unsigned long szT = nondet_ulong (), alT = nondet_ulong (), a = nondet_ulong (), aa = nondet_ulong (), w = nondet_ulong ();
  __CPROVER_assume (szT >= 1 && szT <= 72 && pow2 (alT) && szT %% alT == 0);
  __CPROVER_assume (a <= 24 && (aa == 1 || aa == 2 || aa == 4 || aa == 8) && a %% aa == 0);
  __CPROVER_assume (w == 1 || w == 2 || w == 4 || w == 8);
  unsigned long empty = abi_sizeof_sv (0, szT, alT, a, aa, w);
  __CPROVER_assume (empty < %(total)d);            /* otherwise the header's own static_assert rejects the instantiation */
  unsigned v = dbs_value (szT, empty);
  unsigned long TOTAL = %(total)d;
  int one_fits = abi_sizeof_sv (1, szT, alT, a, aa, w) <= TOTAL;
  __CPROVER_assert (v >= 1, "[C19] the default inline capacity is at least 1");
  /* exactness class: no tail-padding reuse and no alignment gap between header and buffer */
  int exact_class = (a == 0) && ((8 + 2 * w) %% 8 == 0) && (alT <= 8);
  __CPROVER_assert (one_fits || v == 1, "[C19] capacity 1 when not even one element fits");
  __CPROVER_assert (!(exact_class && one_fits) || abi_sizeof_sv (v, szT, alT, a, aa, w) <= TOTAL, "[C19] fits (stateless allocator, 32/64-bit size_type, alignment <= 8): the object with the default capacity occupies at most 64 bytes");
  __CPROVER_assert (!(!exact_class && one_fits) || abi_sizeof_sv (v, szT, alT, a, aa, w) <= TOTAL, "[C19] fits (remaining classes): the object with the default capacity occupies at most 64 bytes");
  __CPROVER_assert (!(exact_class && one_fits) || abi_sizeof_sv ((unsigned long) v + 1, szT, alT, a, aa, w) > TOTAL, "[C19] largest (stateless allocator, 32/64-bit size_type, alignment <= 8): one more element would not fit");
  __CPROVER_assert (!(!exact_class && one_fits) || abi_sizeof_sv ((unsigned long) v + 1, szT, alT, a, aa, w) > TOTAL, "[C19] largest (remaining classes): one more element would not fit");
  __CPROVER_assert (0, "canary reach");
}
'''

def main():
    t0 = time.time()
    tier = 'quick'
    for i, a in enumerate(sys.argv):
        if a == '--tier':
            tier = sys.argv[i + 1]
    seed = int(os.environ.get('VERIF_SEED', '0') or 0)
    wd = tempfile.mkdtemp(prefix='svc19_', dir=os.environ.get('VERIF_TMP'))
    und = []; vio = []; known_printed = []
    try:
        total, ib, val, raw = extract()
        # (2) ABI contract validation on both compilers
        grid = os.path.join(wd, 'grid.cpp'); open(grid, 'w').write(GRID_TMPL)
        nass = GRID_TMPL.count('CHK(') - 1
        abi_ok = {}
        for cxx in ('g++', 'clang++'):
            r = subprocess.run([cxx, '-std=c++17', '-fsyntax-only', '-I', REPO + '/source/include', grid], capture_output=True, text=True)
            abi_ok[cxx] = (r.returncode == 0)
            if r.returncode != 0:
                msgs = re.findall(r'static assertion failed[^\n]*', r.stderr)[:3] or [r.stderr[-400:]]
                if any(('abi ' in m) for m in msgs) or 'abi ' in r.stderr:
                    und.append('%s: assumed ABI contract does not match the compiler: %s' % (cxx, msgs))
                else:
                    vio.append(('static', '%s: %s' % (cxx, msgs)))
        # (3) CBMC
        h = os.path.join(wd, 'h.c'); open(h, 'w').write(HARNESS % {'ideal_buffer': ib, 'value': val, 'total': total})
        r = subprocess.run(['goto-cc', '-I', os.path.join(ROOT, 'c19'), '--function', 'harness', h, '-o', os.path.join(wd, 'h.gb')], capture_output=True, text=True)
        if r.returncode != 0:
            und.append('goto-cc failed: ' + (r.stderr or r.stdout)[-400:])
        res = []
        if not und:
            r = subprocess.run(['cbmc', os.path.join(wd, 'h.gb'), '--json-ui', '--unsigned-overflow-check', '--signed-overflow-check', '--conversion-check', '--div-by-zero-check', '--trace'], capture_output=True, text=True, timeout=600)
            try:
                js = json.loads(r.stdout)
                for it in js:
                    if 'result' in it:
                        res = it['result']
            except Exception:
                und.append('cbmc output not parseable')
        known = [k for k in json.load(open(os.path.join(ROOT, 'known_findings.json')))['findings'] if k['property'] == 'C19' and k['status'] == 'known']
        obligations = discharged = 0; canary = False; samples = []
        for p in res:
            d = p.get('description', '')
            if d.startswith('canary'):
                canary = (p['status'] == 'FAILURE'); continue
            obligations += 1
            if p['status'] == 'SUCCESS':
                discharged += 1
            elif p['status'] == 'FAILURE':
                ce = {}
                for st in p.get('trace', []):
                    if st.get('stepType') == 'assignment' and st.get('lhs') in ('szT', 'alT', 'a', 'aa', 'w', 'v', 'empty'):
                        ce[st['lhs']] = re.sub(r'[a-zA-Z]+$', '', str(st.get('value', {}).get('data')))
                kf = [k for k in known if k['match'].get('description_contains', '') in d]
                if kf:
                    known_printed.append((kf[0], ce))
                    obligations -= 1      # a known finding is reported, not counted among the obligations claimed as proved
                else:
                    vio.append((d, ce))
            else:
                und.append('obligation undecided: ' + d)
            if len(samples) < 3:
                samples.append({'obligation': d, 'status': p['status']})
        if res and not canary:
            und.append('vacuous: harness end unreachable')
        code = 0
        for k, ce in known_printed:
            print('KNOWN-FINDING: property=C19 %s [%s] (counterexample %s)' % (k['what'], k['id'], ce))
        os.makedirs(os.path.join(OUT, 'replays'), exist_ok=True)
        for d, ce in vio:
            path = os.path.join(OUT, 'replays', 'C19-%s.json' % re.sub(r'\W+', '_', str(d))[:60])
            native = None
            if isinstance(ce, dict) and ce:
                native = native_replay(ce, wd)
            json.dump({'property': 'C19', 'failed_obligation': d, 'counterexample': ce, 'native_replay': native, 'extracted': raw}, open(path, 'w'), indent=1)
            print('VIOLATION property=C19 replay=%s%s' % (path, '' if native and native.get('reproduced') else ' no-failing-input-found'))
            code = 1
        if und and code == 0:
            code = 2
        for u in und:
            print('UNDECIDED: ' + u)
        ev = {'property_id': 'C19', 'tier': tier, 'seed': seed, 'level': 'proof',
              'coverage': {'obligations': obligations + nass * 2, 'discharged': discharged + (nass if abi_ok.get('g++') else 0) + (nass if abi_ok.get('clang++') else 0),
                           'checker_cmd': 'clang++ -ast-dump=json (extract initialisers) ; g++/clang++ -fsyntax-only grid.cpp (ABI contract) ; goto-cc h.c ; cbmc --trace (finite domain, complete)',
                           'trusted_base': ['ABI size contract /verif/c19/abi_model.h (validated against g++ 12 and clang++ 14 on %d static_asserts each run)' % nass, 'textual extraction of default_buffer_size::{ideal_buffer,value} initialisers (tokens checked)', 'CBMC 6.11'],
                           'samples': samples, 'exhaustive': True,
                           'domain': 'sizeof T 1..72, alignof T in {1..64} dividing sizeof T, allocator state 0..24 bytes with alignment 1/2/4/8, size_type 8/16/32/64 bit',
                           'extracted': raw, 'known_findings_hit': [k['id'] for k, _ in known_printed],
                           'explanation': 'value == spec is decided by CBMC over the whole stated domain modulo the assumed ABI contract; static facts (inline_capacity(), N==0 object size, buffer alignment) are static_asserts compiled by both compilers'},
              'assumptions': ['Itanium C++ ABI object layout as written in abi_model.h (validated on a grid, not proved)', 'LP64'],
              'wall_s': round(time.time() - t0, 1), 'violations': len(vio)}
        os.makedirs(os.path.join(OUT, 'evidence'), exist_ok=True)
        json.dump(ev, open(os.path.join(OUT, 'evidence', 'C19.json'), 'w'), indent=1)
        print('C19 %s: %d obligations, %d discharged, %d violations, %d known findings, %d undecided, %.0fs' % (tier, ev['coverage']['obligations'], ev['coverage']['discharged'], len(vio), len(known_printed), len(und), time.time() - t0))
        return code
    finally:
        shutil.rmtree(wd, ignore_errors=True)

def native_replay(ce, wd):
    """compile the counterexample's (sizeof T, alignof T, size_type) with the real header: is value + 1 still a 64-byte object?"""
    try:
        sz, al, w, a = int(ce['szT']), int(ce['alT']), int(ce['w']), int(ce.get('a', 0))
    except Exception:
        return None
    st = {1: 'std::uint8_t', 2: 'std::uint16_t', 4: 'std::uint32_t', 8: 'std::uint64_t'}[w]
    stt = 'void' if a == 0 else 'bytes<%d>' % a
    src = GRID_TMPL.split('#define CHK')[0] + '''
#include <cstdio>
int main(){ using T = E<%d,%d>; using A = al<T,%s,%s>; constexpr unsigned v = gch::default_buffer_size<A>::value;
  std::printf("value=%%u sizeof(v)=%%zu sizeof(v+1)=%%zu\\n", v, sizeof(gch::small_vector<T,v,A>), sizeof(gch::small_vector<T,v+1,A>));
  return sizeof(gch::small_vector<T,v+1,A>) <= 64 ? 1 : 0; }''' % (sz, al, st, stt)
    p = os.path.join(wd, 'nat.cpp'); open(p, 'w').write(src)
    r = subprocess.run(['g++', '-std=c++17', '-I', REPO + '/source/include', p, '-o', os.path.join(wd, 'nat')], capture_output=True, text=True)
    if r.returncode != 0:
        return {'reproduced': False, 'error': r.stderr[-300:]}
    r = subprocess.run([os.path.join(wd, 'nat')], capture_output=True, text=True)
    return {'reproduced': r.returncode == 1, 'output': r.stdout.strip()}

if __name__ == '__main__':
    sys.exit(main())
