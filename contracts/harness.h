/* Harness support: builds the memory of an arbitrary entry state.  Only memory shape is built here;
 * every constraint on it comes from the `requires` clauses of the function under proof. */
#ifndef VERIF_HARNESS_H
#define VERIF_HARNESS_H
#include <stdlib.h>

#ifndef SIZE_TY
#define SIZE_TY unsigned long           /* the allocator_interface's size_ty of the configuration */
#endif
SIZE_TY nondet_size_ty (void);
#ifdef REPLAY_SMALL
/* small model used only to obtain a natively replayable counterexample of an obligation that already failed */
static SIZE_TY replay_small_size (void) { SIZE_TY x = nondet_size_ty (); __CPROVER_assume (x <= 8); return x; }
#define nondet_size_ty() replay_small_size ()
#endif
#ifndef CFG_SRC_BOUND
#define CFG_SRC_BOUND (1ul << 50)        /* length bound of the caller's ranges (independent of size_type) */
#endif

static void ghost_init (void)
{
  /* configuration constants: arbitrary within the configuration class */
#ifdef CFG_N_ZERO
  __CPROVER_assume (CAP_N == 0);
#else
  __CPROVER_assume (CAP_N >= 1 && CAP_N <= CFG_CAP_BOUND);
#endif
#ifdef CFG_M_ZERO
  __CPROVER_assume (CAP_M == 0);
#else
  __CPROVER_assume (CAP_M >= 1 && CAP_M <= CFG_CAP_BOUND);
#endif
#if defined (FACT_M_LT_N) && FACT_M_LT_N
  __CPROVER_assume (CAP_M < CAP_N);       /* configuration class: the other container's inline capacity is smaller */
#endif
#if defined (FACT_M_GT_N) && FACT_M_GT_N
  __CPROVER_assume (CAP_M > CAP_N);       /* ... larger */
#endif
  /* allocator requirement: max_size () * sizeof (T) is representable; CBMC objects are below 2^55 bytes */
  __CPROVER_assume (ALLOC_MAX <= CFG_ALLOC_MAX_BOUND && ALLOC_MAX <= SIZE_T_MAX_CFG);
#ifndef KF_INLINE_EXCEEDS_MAX_SIZE
  /* configuration class: the inline capacity does not exceed max_size () (the other class is known finding KF-C12-1) */
  __CPROVER_assume (CAP_N <= MAXSZ && CAP_M <= MAXSZ);
#endif
#ifdef REPLAY_SMALL
  __CPROVER_assume (CAP_N <= 4 && CAP_M <= 6);
#endif
  __CPROVER_assume (!exc && exc_kind == EXC_NONE);
  /* watchers denoting the same cell carry the same state */
  __CPROVER_assume (!(WP[0] == WP[1]) || WS[0] == WS[1]);
  __CPROVER_assume (WBL == 0 || WBL == 1);
  __CPROVER_assume (WP[WT] == 0 && WS[WT] == S_RAW);   /* no temporary is tracked on entry */
  __CPROVER_assume (alloc_calls == 0 && dealloc_calls == 0 && gen_calls == 0 && used_kinds == 0);
}

/* a container object with inline capacity n (symbolic), on the heap so that its size can be symbolic */
#ifdef REPLAY_SMALL
#define REPLAY_SMALL_CAP(c) __CPROVER_assume ((c) <= 8);
#else
#define REPLAY_SMALL_CAP(c)
#endif
#define DEFINE_MK_SVB(NAME, T) \
static T *NAME (unsigned int n) \
{ \
  T *s = malloc (sizeof (T) + (unsigned long) n * ESZ); \
  __CPROVER_assume (s != 0); \
  unsigned long cap = nondet_ulong (), size = nondet_ulong (); \
  __CPROVER_assume (cap >= n && size <= cap && cap <= CFG_ALLOC_MAX_BOUND); \
  REPLAY_SMALL_CAP (cap) \
  SZ (s) = size; CAP (s) = cap; AID (s) = nondet_int (); \
  if (cap == n && !CONSTEVAL) \
    DATA (s) = STORAGE (s); \
  else \
    { \
      Elem *blk = malloc (cap * ESZ); \
      __CPROVER_assume (blk != 0); \
      DATA (s) = blk; \
    } \
  return s; \
}
DEFINE_MK_SVB (mk_svb_n, struct svb)
#ifdef CFG_HAS_M
DEFINE_MK_SVB (mk_svbM_n, struct svbM)
#define mk_svbM() mk_svbM_n (CAP_M)
#endif
#define mk_svb() mk_svb_n (CAP_N)

/* raw memory for a container that is about to be constructed (all fields arbitrary) */
static struct svb *mk_svb_raw (void)
{
  struct svb *s = malloc (sizeof (struct svb) + (unsigned long) CAP_N * ESZ);
  __CPROVER_assume (s != 0);
  return s;
}

/* a caller's contiguous range of foreign elements */
static const Elem *mk_src_range (unsigned long *len)
{
  unsigned long n = nondet_ulong (), k = nondet_ulong (), m = nondet_ulong ();
  __CPROVER_assume (n <= CFG_SRC_BOUND && k <= n && m <= n - k);
  Elem *src = malloc (n * ESZ);
  __CPROVER_assume (src != 0);
  *len = m;
  return src + k;
}

/* an element cell outside every container: a separate one-element object (live or not: by requires) */
static Elem *mk_cell (void)
{
  Elem *c = malloc (ESZ);
  __CPROVER_assume (c != 0);
  return c;
}

/* a cell that is either outside the container or one of its cells (aliasing arguments, C11) */
static Elem *mk_cell_maybe_in (struct svb *s)
{
  if (nondet_bool ())
    return mk_cell ();
  unsigned long k = nondet_ulong ();
  __CPROVER_assume (k < SZ (s));
  return DATA (s) + k;
}

/* a position in [begin, end] */
static Elem *mk_pos (struct svb *s)
{
  unsigned long k = nondet_ulong ();
  __CPROVER_assume (k <= SZ (s));
  return k == 0 ? DATA (s) : DATA (s) + k;      /* data () may be null when the inline capacity is 0 */
}

/* the caller's forward iterator at a position */
static struct FwdIt mk_fwd (const Elem *p) { struct FwdIt i; i.cur = p; return i; }

#endif
