/* Specification macros over the extracted structs (included after the generated struct definitions).
 * Field paths are must-fire names: a rename in the header breaks compilation of the model (exit 2). */
#ifndef VERIF_MACROS_H
#define VERIF_MACROS_H

#define SZ(s)      ((s)->m_data.base.m_size)
#define CAP(s)     ((s)->m_data.base.m_capacity)
#define DATA(s)    ((s)->m_data.base.m_data_ptr)
#define AID(s)     ((s)->base.base.m_alloc.id)
#ifdef CFG_N_ZERO
#define STORAGE(s) ((Elem *) 0)
#else
#define STORAGE(s) ((Elem *) (s)->m_data.m_storage.m_data)
#endif

/* p is the start of a live allocator block of exactly n elements (as a memory-model fact) */
#define HEAPBLK(p, n) ((p) != 0 && __CPROVER_DYNAMIC_OBJECT (p) && OFF (p) == 0 && __CPROVER_OBJECT_SIZE (p) == (unsigned long) (n) * ESZ)

/* representation invariant (C02) for a container whose inline capacity is N */
#define WF_(s, N) \
  (SZ (s) <= CAP (s) && (unsigned long) (N) <= CAP (s) && SZ (s) <= MAXSZ && (CAP (s) <= MAXSZ || CAP (s) == (unsigned long) (N)) \
   && IMPLIES (CAP (s) == (unsigned long) (N), DATA (s) == STORAGE (s)) \
   && IMPLIES (CAP (s) != (unsigned long) (N), HEAPBLK (DATA (s), CAP (s)) && !SAMEOBJ (DATA (s), (s))))
#define WF(s)  WF_ (s, CAP_N)
#define WFM(s) WF_ (s, CAP_M)

/* element lifetimes (C03): cells below size () are live, cells between size () and capacity () are raw */
#define CELL1(s, i) \
  (IMPLIES (IN_RANGE (WP[i], DATA (s), SZ (s)), WL[i] != 0) \
   && IMPLIES (IN_RANGE (WP[i], DATA (s), CAP (s)) && IDX (WP[i], DATA (s)) >= SZ (s), WL[i] == 0))
#define CELLS(s) (CELL1 (s, 0) && CELL1 (s, 1) && CELL1 (s, 2) && CELL1 (s, 3))

/* allocation ledger (C04): a heap buffer is a live block of exactly capacity () elements of the container's allocator */
#define BLOCK_(s, N) IMPLIES (WB == DATA (s) && CAP (s) != (unsigned long) (N), WBL != 0 && WBN == CAP (s) && WBA == AID (s))
#define BLOCK(s)  BLOCK_ (s, CAP_N)
#define BLOCKM(s) BLOCK_ (s, CAP_M)

#define INV(s)  (WF (s) && CELLS (s) && BLOCK (s))
#define INVM(s) (WFM (s) && CELLS (s) && BLOCKM (s))

/* watched cell i is the cell at index k of the container */
#define AT(s, i, k) (WP[i] == DATA (s) + (k))

#endif
