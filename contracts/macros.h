/* Specification macros over the extracted structs (included after the generated struct definitions).
 * Field paths are must-fire names: a rename in the header breaks compilation of the model (exit 2). */
#ifndef VERIF_MACROS_H
#define VERIF_MACROS_H

#define SZ(s)      ((s)->m_data.base.m_size)
#define CAP(s)     ((s)->m_data.base.m_capacity)
#define DATA(s)    ((s)->m_data.base.m_data_ptr)
#define AID(s)     ((s)->base.base.m_alloc.id)
int __CPROVER_uninterpreted_soccc (int);
#define SOCCC(id)  (__CPROVER_uninterpreted_soccc (id))   /* select_on_container_copy_construction: an uninterpreted function of the allocator identity */
#ifdef CFG_N_ZERO
#define STORAGE(s) ((Elem *) 0)
#else
#define STORAGE(s) ((Elem *) (s)->m_data.m_storage.m_data)
#endif
#define SVB(v)     (&(v)->base)                     /* the small_vector_base sub-object of a small_vector */
#define END(s)     (DATA (s) + SZ (s))
#define CAPEND(s)  (DATA (s) + CAP (s))

/* p is the start of a live allocator block of exactly n elements (as a memory-model fact) */
#define HEAPBLK(p, n) ((p) != 0 && __CPROVER_DYNAMIC_OBJECT (p) && OFF (p) == 0 && __CPROVER_OBJECT_SIZE (p) == ((unsigned long) (n) << ESZ_LOG2))

/* the container holds an allocator block: at run time exactly when capacity () differs from the inline capacity; during constant
   evaluation (configuration class CONSTEVAL, C08) always - the inline buffer is not usable there and has_allocation () is true */
#define HASALLOC(s, N)  (CONSTEVAL || CAP (s) != (unsigned long) (N))
#define OHASALLOC(s, N) (CONSTEVAL || OCAP (s) != (unsigned long) (N))
/* representation invariant (C02) for a container whose inline capacity is N */
#define WF_(s, N) \
  (SZ (s) <= CAP (s) && (unsigned long) (N) <= CAP (s) && SZ (s) <= MAXSZ && (CAP (s) <= MAXSZ || CAP (s) == (unsigned long) (N)) \
   && IMPLIES (!HASALLOC (s, N), DATA (s) == STORAGE (s)) \
   && IMPLIES (HASALLOC (s, N), HEAPBLK (DATA (s), CAP (s)) && !SAMEOBJ (DATA (s), (s))))
#define WF(s)  WF_ (s, CAP_N)
#define WFM(s) WF_ (s, CAP_M)

/* all watched cells satisfy P */
#define ALLW(P) (P (0) && P (1) && P (2))

/* element lifetimes (C03): inside the object that holds the elements, exactly the size () cells from data () on hold a live element */
#define CELL1(s, i) (IMPLIES (DATA (s) != 0 && SAMEOBJ (WP[i], DATA (s)), IFF (LIVE (i), IN_RANGE (WP[i], DATA (s), SZ (s)))) \
                     && IMPLIES (SAMEOBJ (WP[i], (s)) && !SAMEOBJ (DATA (s), (s)), RAW (i)))
#define CELLS(s) (CELL1 (s, 0) && CELL1 (s, 1) && CELL1 (s, 2))

/* allocation ledger (C04): a heap buffer is a live block of exactly capacity () elements of the container's allocator */
/* (with is_always_equal allocators every instance is equal to get_allocator (): the owner's identity is then immaterial) */
#ifdef ALLOC_ALWAYS_EQUAL
#define OWNER_EQ(a, b) 1
#else
#define OWNER_EQ(a, b) ((a) == (b))
#endif
#define BLOCK_(s, N) IMPLIES (WB == DATA (s) && HASALLOC (s, N), WBL != 0 && WBN == CAP (s) && OWNER_EQ (WBA, AID (s)))
#define BLOCK(s)  BLOCK_ (s, CAP_N)
#define BLOCKM(s) BLOCK_ (s, CAP_M)

#define INV_(s, N) (WF_ (s, N) && CELLS (s) && BLOCK_ (s, N))
#define INV(s)  (WF (s) && CELLS (s) && BLOCK (s))
#define INVM(s) (WFM (s) && CELLS (s) && BLOCKM (s))

/* ---- ranges of cells ------------------------------------------------------------------------ */
#define RANGE_OK(first, last) (SAMEOBJ ((first), (last)) && OFF (first) <= OFF (last) && ALIGNED (OFF (last) - OFF (first)))
#define RLEN(first, last)     DIVESZ (OFF (last) - OFF (first))
#define RBYTES(first, last)   (OFF (last) - OFF (first))
#define LIVE_BETWEEN(lo, hi)  (IMPLIES (IN_PTRS (WP[0], lo, hi), LIVE (0)) && IMPLIES (IN_PTRS (WP[1], lo, hi), LIVE (1)) && IMPLIES (IN_PTRS (WP[2], lo, hi), LIVE (2)))
#define RAW_BETWEEN(lo, hi)   (IMPLIES (IN_PTRS (WP[0], lo, hi), RAW (0)) && IMPLIES (IN_PTRS (WP[1], lo, hi), RAW (1)) && IMPLIES (IN_PTRS (WP[2], lo, hi), RAW (2)))
#define MOVED_FROM(lo, hi)    (IMPLIES (IN_PTRS (WP[0], lo, hi), WS[0] == S_MF) && IMPLIES (IN_PTRS (WP[1], lo, hi), WS[1] == S_MF) && IMPLIES (IN_PTRS (WP[2], lo, hi), WS[2] == S_MF))
#define NOT_MOVED_FROM(lo, hi) (IMPLIES (IN_PTRS (WP[0], lo, hi), WS[0] != S_MF) && IMPLIES (IN_PTRS (WP[1], lo, hi), WS[1] != S_MF) && IMPLIES (IN_PTRS (WP[2], lo, hi), WS[2] != S_MF))
/* ghost state of watched cell i is what it was on entry (of the function / of the loop) */
#define SAME_CELL(i)    (WS[i] == __CPROVER_old (WS[i]))
#define SAME_CELL_LE(i) (WS[i] == __CPROVER_loop_entry (WS[i]))
#define FRAME_OUTSIDE(lo, hi) \
  (IMPLIES (!IN_PTRS (WP[0], lo, hi), SAME_CELL (0)) && IMPLIES (!IN_PTRS (WP[1], lo, hi), SAME_CELL (1)) && IMPLIES (!IN_PTRS (WP[2], lo, hi), SAME_CELL (2)))
#define FRAME_OUTSIDE_LE(lo, hi) \
  (IMPLIES (!IN_PTRS (WP[0], lo, hi), SAME_CELL_LE (0)) && IMPLIES (!IN_PTRS (WP[1], lo, hi), SAME_CELL_LE (1)) && IMPLIES (!IN_PTRS (WP[2], lo, hi), SAME_CELL_LE (2)))
#define IN_EITHER(p, lo1, hi1, lo2, hi2) (IN_PTRS (p, lo1, hi1) || IN_PTRS (p, lo2, hi2))
#define FRAME_OUTSIDE2(lo1, hi1, lo2, hi2) \
  (IMPLIES (!IN_EITHER (WP[0], lo1, hi1, lo2, hi2), SAME_CELL (0)) && IMPLIES (!IN_EITHER (WP[1], lo1, hi1, lo2, hi2), SAME_CELL (1)) \
   && IMPLIES (!IN_EITHER (WP[2], lo1, hi1, lo2, hi2), SAME_CELL (2)))
#define FRAME_OUTSIDE2_LE(lo1, hi1, lo2, hi2) \
  (IMPLIES (!IN_EITHER (WP[0], lo1, hi1, lo2, hi2), SAME_CELL_LE (0)) && IMPLIES (!IN_EITHER (WP[1], lo1, hi1, lo2, hi2), SAME_CELL_LE (1)) \
   && IMPLIES (!IN_EITHER (WP[2], lo1, hi1, lo2, hi2), SAME_CELL_LE (2)))
#define UNCHANGED_BETWEEN(lo, hi) \
  (IMPLIES (IN_PTRS (WP[0], lo, hi), SAME_CELL (0)) && IMPLIES (IN_PTRS (WP[1], lo, hi), SAME_CELL (1)) && IMPLIES (IN_PTRS (WP[2], lo, hi), SAME_CELL (2)))
#define UNCHANGED_BETWEEN_LE(lo, hi) \
  (IMPLIES (IN_PTRS (WP[0], lo, hi), SAME_CELL_LE (0)) && IMPLIES (IN_PTRS (WP[1], lo, hi), SAME_CELL_LE (1)) && IMPLIES (IN_PTRS (WP[2], lo, hi), SAME_CELL_LE (2)))

/* ---- value flow between watched cells ----------------------------------------------------------
 * Skolemised statements name one destination cell WP[0], one source cell WP[1] and the tracked
 * temporary WP[2]; value-flow clauses are stated for the role pairs (0<-1), (0<-2), (2<-1). */
#define FILLED1(d, s, lo, hi, src)    IMPLIES (IN_PTRS (WP[d], lo, hi) && (src) == WP[s], WS[d] == __CPROVER_old (WS[s]))
#define FILLED(lo, hi, src)           (FILLED1 (0, 1, lo, hi, src) && FILLED1 (0, 2, lo, hi, src))
#define FILLED1_LE(d, s, lo, hi, src) IMPLIES (IN_PTRS (WP[d], lo, hi) && (src) == WP[s], WS[d] == __CPROVER_loop_entry (WS[s]))
#define FILLED_LE(lo, hi, src)        (FILLED1_LE (0, 1, lo, hi, src) && FILLED1_LE (0, 2, lo, hi, src))
/* the watched destination cell in [dlo, dhi) holds what the watched source cell at the same index of [slo, shi) held */
#define SAME_INDEX(d, s, dlo, slo)    (OFF (WP[d]) - OFF (dlo) == OFF (WP[s]) - OFF (slo))
#define COPIED(dlo, dhi, slo, shi)    IMPLIES (IN_PTRS (WP[0], dlo, dhi) && IN_PTRS (WP[1], slo, shi) && SAME_INDEX (0, 1, dlo, slo), WS[0] == __CPROVER_old (WS[1]))
#define COPIED_LE(dlo, dhi, slo, shi) IMPLIES (IN_PTRS (WP[0], dlo, dhi) && IN_PTRS (WP[1], slo, shi) && SAME_INDEX (0, 1, dlo, slo), WS[0] == __CPROVER_loop_entry (WS[1]))
/* the cell p holds a live element / is raw (if watched) */
#define CELL_LIVE(p) (IMPLIES ((p) == WP[0], LIVE (0)) && IMPLIES ((p) == WP[1], LIVE (1)) && IMPLIES ((p) == WP[2], LIVE (2)))
#define CELL_RAW(p)  (IMPLIES ((p) == WP[0], RAW (0)) && IMPLIES ((p) == WP[1], RAW (1)) && IMPLIES ((p) == WP[2], RAW (2)))
/* [lo, hi) and [lo2, hi2) do not overlap; p is not a cell of [lo, hi) */
#define DISJOINT(lo, hi, lo2, hi2) (!SAMEOBJ (lo, lo2) || OFF (hi) <= OFF (lo2) || OFF (hi2) <= OFF (lo))
#define NOT_IN(p, lo, hi)          (!SAMEOBJ (p, lo) || OFF (p) + ESZ <= OFF (lo) || OFF (p) >= OFF (hi))
/* p is not one of the raw cells [size, capacity) of the container (offsets only: data () may be null) */
#define NOT_IN_SPARE(p, s)         (!SAMEOBJ (p, DATA (s)) || OFF (p) + ESZ <= OFF (DATA (s)) + (SZ (s) << ESZ_LOG2) || OFF (p) >= OFF (DATA (s)) + (CAP (s) << ESZ_LOG2))
#define NOT_IN_BUF(p, s)           (!SAMEOBJ (p, DATA (s)) || OFF (p) + ESZ <= OFF (DATA (s)) || OFF (p) >= OFF (DATA (s)) + (CAP (s) << ESZ_LOG2))

/* ghost objects a cell operation may change */
#define GHOST_CELLS __CPROVER_object_whole (WS), used_kinds
#define GHOST_TEMP  WP[WT]
#define GHOST_EXC   exc, exc_kind
#define GHOST_BLOCK WBL, WBN, WBA, alloc_calls, dealloc_calls

/* ---- whole-container post-state predicates (entry snapshot through __CPROVER_old) -------------- */
#define ODATA(s) __CPROVER_old (DATA (s))
#define OSZ(s)   __CPROVER_old (SZ (s))
#define OCAP(s)  __CPROVER_old (CAP (s))
#define UNCHANGED_REP(s) (DATA (s) == ODATA (s) && CAP (s) == OCAP (s) && SZ (s) == OSZ (s))
/* exactness of lifetimes (C03/C06): a watched cell is live iff it is one of the container's size () elements,
   or it was live before and was not one of the container's elements (and is not a left-over temporary) */
#define EXACT1_(s, i, N) IFF (LIVE (i), IN_RANGE (WP[i], DATA (s), SZ (s)) || (__CPROVER_old (WS[i]) != S_RAW && !IN_RANGE (WP[i], ODATA (s), OSZ (s))))
#define EXACT(s)  (EXACT1_ (s, 0, CAP_N) && EXACT1_ (s, 1, CAP_N) && EXACT1_ (s, 2, CAP_N))
/* exactness of the allocation ledger (C04/C06): the watched block is live iff it is the container's heap buffer,
   or it was live before and was not the container's buffer */
#define EXACTB_(s, N) IFF (WBL, (WB == DATA (s) && HASALLOC (s, N)) || (__CPROVER_old (WBL) != 0 && !(WB == ODATA (s) && OHASALLOC (s, N))))
#define EXACTB(s)  EXACTB_ (s, CAP_N)
#define EXACTBM(s) EXACTB_ (s, CAP_M)
/* cells that belong to neither the old nor the new buffer keep their state */
#define OUTSIDE1(s, i) IMPLIES (!IN_RANGE (WP[i], DATA (s), CAP (s)) && !IN_RANGE (WP[i], ODATA (s), OCAP (s)) && WP[i] == __CPROVER_old (WP[i]), SAME_CELL (i))
#define OUTSIDE_UNTOUCHED(s) (OUTSIDE1 (s, 0) && OUTSIDE1 (s, 1) && OUTSIDE1 (s, 2))
/* strong guarantee (C05): representation and every element unchanged, nothing leaked */
#define ELEMS_SAME(s) (IMPLIES (IN_RANGE (WP[0], DATA (s), SZ (s)), SAME_CELL (0)) && IMPLIES (IN_RANGE (WP[1], DATA (s), SZ (s)), SAME_CELL (1)))
#define SAME(s)  (UNCHANGED_REP (s) && ELEMS_SAME (s))
/* the first n elements are what they were (possibly relocated): destination cell WP[0], old cell WP[1] */
#define PREFIX_KEPT(s, n) MOVED_UP (DATA (s), 0, n, ODATA (s), 0)
/* elements [from, size ()) are copies of the entry value of *val (value watched by WP[1]) */
#define TAIL_FILLED(s, from, val) FILLED_IDX (DATA (s), from, SZ (s), val)
/* growth (C14): a changed capacity is at least the needed size and at least 1.5x the old one, saturating at max_size () */
#define GROWTH(s, needed) IMPLIES (CAP (s) != OCAP (s), CAP (s) >= (needed) && CAP (s) > OCAP (s) && (CAP (s) - OCAP (s) >= (OCAP (s) >> 1) || CAP (s) == MAXSZ))
/* no reallocation (C10) */
/* (during constant evaluation the aliasing-safe insert paths use a one-element heap temporary: the buffer is still not reallocated) */
#define NO_REALLOC(s) (DATA (s) == ODATA (s) && CAP (s) == OCAP (s) && (CONSTEVAL || (alloc_calls == __CPROVER_old (alloc_calls) && dealloc_calls == __CPROVER_old (dealloc_calls))))

/* ---- index-based cell predicates (offsets only: no pointer arithmetic on a buffer that may have been given back) ---- */
#define BIDX(p, base) (OFF (p) - OFF (base))
#define IN_IDX(i, base, lo, hi) \
  (SAMEOBJ (WP[i], base) && OFF (WP[i]) >= OFF (base) && ALIGNED (BIDX (WP[i], base)) \
   && BIDX (WP[i], base) >= ((unsigned long) (lo) << ESZ_LOG2) && BIDX (WP[i], base) < ((unsigned long) (hi) << ESZ_LOG2))
#define AT_IDX(i, base, k) (SAMEOBJ (WP[i], base) && OFF (WP[i]) >= OFF (base) && BIDX (WP[i], base) == ((unsigned long) (k) << ESZ_LOG2))
/* the element now at index j of dbase (dlo <= j < dhi) is the one that was at index j - k (MOVED_UP) / j + k (MOVED_DOWN) of sbase */
#define MOVED_UP(dbase, dlo, dhi, sbase, k) \
  IMPLIES (IN_IDX (0, dbase, dlo, dhi) && SAMEOBJ (WP[1], sbase) && OFF (WP[1]) >= OFF (sbase) && BIDX (WP[0], dbase) == BIDX (WP[1], sbase) + ((unsigned long) (k) << ESZ_LOG2), WS[0] == __CPROVER_old (WS[1]))
#define MOVED_DOWN(dbase, dlo, dhi, sbase, k) \
  IMPLIES (IN_IDX (0, dbase, dlo, dhi) && SAMEOBJ (WP[1], sbase) && OFF (WP[1]) >= OFF (sbase) && BIDX (WP[0], dbase) + ((unsigned long) (k) << ESZ_LOG2) == BIDX (WP[1], sbase), WS[0] == __CPROVER_old (WS[1]))
/* the elements at indices [lo, hi) hold the entry value of *val */
#define FILLED_IDX(base, lo, hi, val) IMPLIES (IN_IDX (0, base, lo, hi) && (val) == WP[1], WS[0] == __CPROVER_old (WS[1]))
/* elements at indices [lo, hi) of the (unchanged) buffer are untouched */
#define UNCHANGED_IDX(base, lo, hi) (IMPLIES (IN_IDX (0, base, lo, hi), SAME_CELL (0)) && IMPLIES (IN_IDX (1, base, lo, hi), SAME_CELL (1)))
/* old index of a position */
#define OIDX(s, pos) DIVESZ (OFF (pos) - OFF (ODATA (s)))

/* ---- two participants / construction ------------------------------------------------------------ */
#define DISTINCT(a, b) (!SAMEOBJ ((a), (b)) && !SAMEOBJ (DATA (a), DATA (b)) && !SAMEOBJ (DATA (a), (b)) && !SAMEOBJ (DATA (b), (a)))
#define EXACT2_1(a, b, i) IFF (LIVE (i), IN_RANGE (WP[i], DATA (a), SZ (a)) || IN_RANGE (WP[i], DATA (b), SZ (b)) \
   || (__CPROVER_old (WS[i]) != S_RAW && !IN_RANGE (WP[i], ODATA (a), OSZ (a)) && !IN_RANGE (WP[i], ODATA (b), OSZ (b))))
#define EXACT2(a, b) (EXACT2_1 (a, b, 0) && EXACT2_1 (a, b, 1) && EXACT2_1 (a, b, 2))
#define EXACTB2_(a, Na, b, Nb) IFF (WBL, (WB == DATA (a) && HASALLOC (a, Na)) || (WB == DATA (b) && HASALLOC (b, Nb)) \
   || (__CPROVER_old (WBL) != 0 && !(WB == ODATA (a) && OHASALLOC (a, Na)) && !(WB == ODATA (b) && OHASALLOC (b, Nb))))
#define EXACTB2(a, b) EXACTB2_ (a, CAP_N, b, CAP_N)
#define OUTSIDE2_1(a, b, i) IMPLIES (!IN_RANGE (WP[i], DATA (a), CAP (a)) && !IN_RANGE (WP[i], ODATA (a), OCAP (a)) && !IN_RANGE (WP[i], DATA (b), CAP (b)) && !IN_RANGE (WP[i], ODATA (b), OCAP (b)) \
   && WP[i] == __CPROVER_old (WP[i]), SAME_CELL (i))
#define OUTSIDE2_UNTOUCHED(a, b) (OUTSIDE2_1 (a, b, 0) && OUTSIDE2_1 (a, b, 1) && OUTSIDE2_1 (a, b, 2))
/* the object under construction holds no live element yet */
#define RAW_OBJ(s) (IMPLIES (SAMEOBJ (WP[0], (s)), RAW (0)) && IMPLIES (SAMEOBJ (WP[1], (s)), RAW (1)) && IMPLIES (SAMEOBJ (WP[2], (s)), RAW (2)))
#define EXACT_CTOR1(s, i) IFF (LIVE (i), IN_RANGE (WP[i], DATA (s), SZ (s)) || __CPROVER_old (WS[i]) != S_RAW)
#define EXACT_CTOR(s) (EXACT_CTOR1 (s, 0) && EXACT_CTOR1 (s, 1) && EXACT_CTOR1 (s, 2))
#define EXACTB_CTOR_(s, N) IFF (WBL, (WB == DATA (s) && HASALLOC (s, N)) || __CPROVER_old (WBL) != 0)
#define EXACTB_CTOR(s) EXACTB_CTOR_ (s, CAP_N)
/* construction from another container o (which may be emptied) */
#define EXACT_CTOR2_1(s, o, i) IFF (LIVE (i), IN_RANGE (WP[i], DATA (s), SZ (s)) || IN_RANGE (WP[i], DATA (o), SZ (o)) || (__CPROVER_old (WS[i]) != S_RAW && !IN_RANGE (WP[i], ODATA (o), OSZ (o))))
#define EXACT_CTOR2(s, o) (EXACT_CTOR2_1 (s, o, 0) && EXACT_CTOR2_1 (s, o, 1) && EXACT_CTOR2_1 (s, o, 2))
#define EXACTB_CTOR2_(s, N, o, M) IFF (WBL, (WB == DATA (s) && HASALLOC (s, N)) || (WB == DATA (o) && HASALLOC (o, M)) || (__CPROVER_old (WBL) != 0 && !(WB == ODATA (o) && OHASALLOC (o, M))))
#define EXACTB_CTOR2(s, o) EXACTB_CTOR2_ (s, CAP_N, o, CAP_N)
/* nothing observable happened to the ghost state (failed construction) */
#define GHOST_SAME (SAME_CELL (0) && SAME_CELL (1) && SAME_CELL (2) && WBL == __CPROVER_old (WBL))
/* a default-state (empty, inlined) container */
#define IS_DEFAULT_(s, N) (SZ (s) == 0 && CAP (s) == (unsigned long) (N) && (CONSTEVAL || DATA (s) == STORAGE (s)))
#define IS_DEFAULT(s) IS_DEFAULT_ (s, CAP_N)

#define RAW_IDX(base, lo, hi)  (IMPLIES (IN_IDX (0, base, lo, hi), RAW (0)) && IMPLIES (IN_IDX (1, base, lo, hi), RAW (1)) && IMPLIES (IN_IDX (2, base, lo, hi), RAW (2)))
#define LIVE_IDX(base, lo, hi) (IMPLIES (IN_IDX (0, base, lo, hi), LIVE (0)) && IMPLIES (IN_IDX (1, base, lo, hi), LIVE (1)) && IMPLIES (IN_IDX (2, base, lo, hi), LIVE (2)))
#define FRAME_IDX(base, lo, hi) (IMPLIES (!IN_IDX (0, base, lo, hi), SAME_CELL (0)) && IMPLIES (!IN_IDX (1, base, lo, hi), SAME_CELL (1)) && IMPLIES (!IN_IDX (2, base, lo, hi), SAME_CELL (2)))


/* a buffer obtained during the call held no live element, and was no live block, on entry (what allocate () guarantees: needed where a
   reallocating operation is replaced by its contract inside a caller's loop) */
#define FRESH_WAS_RAW1(s, i) IMPLIES (DATA (s) != 0 && SAMEOBJ (WP[i], DATA (s)) && WP[i] == __CPROVER_old (WP[i]), __CPROVER_old (WS[i]) == S_RAW)
#define FRESH_WAS_RAW(s) (IMPLIES (DATA (s) != ODATA (s) && HASALLOC (s, CAP_N), FRESH_WAS_RAW1 (s, 0) && FRESH_WAS_RAW1 (s, 1) && FRESH_WAS_RAW1 (s, 2)) \
                          && IMPLIES (DATA (s) != ODATA (s) && HASALLOC (s, CAP_N) && WB == DATA (s), __CPROVER_old (WBL) == 0))
/* assign from a single-pass range: the element at index j < n is a copy of the j-th source position (destination WP[0], source WP[1]) */
#define COPIED_IDX0(dbase, n, sbase) \
  IMPLIES (IN_IDX (0, dbase, 0, n) && SAMEOBJ (WP[1], sbase) && OFF (WP[1]) >= OFF (sbase) && BIDX (WP[0], dbase) == BIDX (WP[1], sbase), WS[0] == __CPROVER_old (WS[1]))
/* generator (C15): the k-th call yields GENV (k); the element at index k of the constructed container is the k-th value */
#define GENV(k) ((GEN_BASE + (int) (k)) == S_RAW || (GEN_BASE + (int) (k)) == S_MF ? 0 : (GEN_BASE + (int) (k)))
#define GEN_PTRS(lo, hi) IMPLIES (IN_PTRS (WP[0], lo, hi), WS[0] == GENV (DIVESZ (OFF (WP[0]) - OFF (lo))))
/* ---- loop-entry forms of the exactness predicates (loops that call container operations: single-pass ranges, C15) ---- */
#define LE(x) __CPROVER_loop_entry (x)
#define EXACT1_LE(s, i) IFF (LIVE (i), IN_RANGE (WP[i], DATA (s), SZ (s)) || (LE (WS[i]) != S_RAW && !IN_RANGE (WP[i], LE (DATA (s)), LE (SZ (s)))))
#define EXACT_LE(s)  (EXACT1_LE (s, 0) && EXACT1_LE (s, 1) && EXACT1_LE (s, 2))
#define EXACTB_LE(s) IFF (WBL, (WB == DATA (s) && HASALLOC (s, CAP_N)) || (LE (WBL) != 0 && !(WB == LE (DATA (s)) && (CONSTEVAL || LE (CAP (s)) != (unsigned long) CAP_N))))
/* the caller's single-pass range [S_CUR, S_END): valid, readable, live, and no part of the container */
#define SP_RANGE(s) (RANGE_OK (S_CUR, S_END) && __CPROVER_r_ok (S_CUR, OFF (S_END) - OFF (S_CUR)) && LIVE_BETWEEN (S_CUR, S_END) \
                     && !SAMEOBJ (S_CUR, (s)) && (DATA (s) == 0 || !SAMEOBJ (S_CUR, DATA (s))))
#define GHOST_SP S_CUR, S_DEREF_DONE

/* ---- documented noexcept conditions (README synopsis), over the configuration facts (C18) ---------
 * std::is_same<std::allocator<T>, Allocator> is false in every configuration (the allocator is vt::alloc).
 * The element's move constructor and move assignment are nothrow together (FACT_MOVE_NOEXCEPT); its ADL swap follows them except in the
 * tswap configurations (FACT_SWAP_NOEXCEPT). */
#ifdef CFG_N_ZERO
#define N_IS_ZERO 1
#else
#define N_IS_ZERO 0
#endif
#ifndef FACT_SWAP_NOEXCEPT
#define FACT_SWAP_NOEXCEPT FACT_MOVE_NOEXCEPT      /* is_nothrow_swappable<T>: differs from the moves only in the tswap configurations */
#endif
#define DOC_NOEXCEPT_MOVE_CTOR    (FACT_MOVE_NOEXCEPT || N_IS_ZERO)
#define DOC_NOEXCEPT_MOVE_ASSIGN  ((FACT_POCMA || FACT_ALWAYS_EQUAL) && (FACT_MOVE_NOEXCEPT || N_IS_ZERO))
#define DOC_NOEXCEPT_SWAP         ((FACT_POCS || FACT_ALWAYS_EQUAL) && ((FACT_MOVE_NOEXCEPT && FACT_SWAP_NOEXCEPT) || N_IS_ZERO))

#endif
