"""Per-property check: selects the proofs that carry obligations of a property, runs them, writes
evidence/<id>.json, prints VIOLATION / KNOWN-FINDING lines.  Exit 0: held; 1: violation; 2: undecided."""
import os, sys, json, time, shutil, re, concurrent.futures, subprocess
ROOT = os.path.dirname(os.path.abspath(__file__))
OUT = os.environ.get('VERIF_OUT', ROOT)      # evidence/ and replays/ go here (seed sweeps redirect them)
sys.path.insert(0, os.path.join(ROOT, 'emit'))
import verif
from configs import CONFIGS, TIERS, QUICK

GLOBAL_PROPS = {'C02', 'C03', 'C04', 'C06', 'C12', 'C13'}     # carried by every body-level proof (invariant, lifetime, ledger, arithmetic, byte frame)
# 'the same contract holds in another configuration class' (language standard, constant evaluation): every obligation of every proof
# of the dedicated configurations is an obligation of the property
WHOLE_CONTRACT_PROPS = {'C17', 'C08'}

TRUSTED = [
    'environment models /verif/env/env.c: element operations (construct/destroy/assign/swap/compare), allocator (allocate/deallocate/max_size/select_on_container_copy_construction/==), scalar helpers - ASSUMED contracts of the container\'s parameters',
    'algorithm summaries in /verif/env/env.c for std::copy/copy_n/move/move_backward/fill/fill_n/swap_ranges (written from [alg.*]; "libstdc++ implements the standard" is assumed)',
    'std::equal / std::lexicographical_compare / std::remove / std::remove_if (C16): uninterpreted, element-consistent results with recorded arguments - the algorithms themselves are assumed, the contracts decide which one is called on which ranges and how the result is combined',
    'std::initializer_list<value_type> (initializer-list overloads): begin () / end () / size () are assumed to describe an array of size () live elements ([support.initlist.access]); the caller\'s erase_if predicate is an opaque call that may throw',
    'caller iterator models (forward, single-pass) and generator model in /verif/env/env.c: protocol violations are failed preconditions',
    'lowering rules r1-r15 and r9b of /verif/emit/emit.py (clang 14 JSON AST of the instantiated members -> C); exceptions lowered to a flag; destructor calls of RAII locals inserted by scope rules',
    'clang 14 front end (template instantiation, overload resolution; exception specifications: IR nounwind attribute for lowering, noexcept-operator probe TU for the declared specification)',
    'CBMC 6.11.0 (goto-cc, goto-instrument --dfcc, SAT back end MiniSat 2.2.1)',
]
ASSUMPTIONS = [
    'raw-pointer allocators only; LP64',
    'sizeof(value_type) modelled as 4 (a power of two): cell arithmetic uses shifts',
    'allocator max_size () <= 2^50 elements in memory-touching proofs (CBMC objects are below 2^55 bytes); capacity arithmetic leaf proved for the full 64-bit range',
    'inline capacity symbolic in [1, 2^30] for the N >= 1 class and <= max_size () (the other class is known finding KF-C12-1)',
    'element payload is ghost state over 2 arbitrary watched cells + 1 tracked temporary cell and one arbitrary watched block (Skolemisation, DESIGN.md 4.2)',
    'left-to-right evaluation of call arguments',
    'exception objects collapsed to kinds {length_error, out_of_range, element, bad_alloc, iterator, generator}',
    'single-pass loops whose body reallocates are bounded stand-ins (listed under bounded_stand_ins with their bound; never counted in obligations/discharged); value flow through them is composed on paper from the per-iteration contract',
    'induction over call histories (every operation requires and re-establishes the invariant) is a paper step over the machine-checked per-call proofs',
]


def load_known():
    p = os.path.join(ROOT, 'known_findings.json')
    if not os.path.exists(p):
        return []
    return json.load(open(p))['findings']


def matches(kf, prop, res, f):
    if kf.get('status') != 'known' or kf.get('property') != prop:
        return False
    m = kf.get('match', {})
    if 'fn' in m and m['fn'] != res['fn']:
        return False
    if 'cfg' in m and m['cfg'] != res['cfg'] and res['cfg'] not in m.get('cfgs', []):
        if res['cfg'] not in m.get('cfgs', [m['cfg']]):
            return False
    if 'cfgs' in m and 'cfg' not in m and res['cfg'] not in m['cfgs']:
        return False
    if 'clause_contains' in m and m['clause_contains'] not in (f.get('clause') or ''):
        return False
    if 'description_contains' in m and m['description_contains'] not in (f.get('description') or ''):
        return False
    return True


def relevant(spec, prop):
    tags = set()
    for c in spec.requires + spec.ensures:
        tags.update(c.tags)
    for lk in spec.loops.values():
        for c in lk['invariant']:
            tags.update(c.tags)
    if prop in tags:
        return True
    return prop in GLOBAL_PROPS or prop in WHOLE_CONTRACT_PROPS


def write_replay(prop, res, f, extra):
    d = os.path.join(OUT, 'replays')
    os.makedirs(d, exist_ok=True)
    name = '%s-%s-%s-%s.json' % (prop, res['cfg'], res['fn'], re.sub(r'\W+', '_', f['property']))
    path = os.path.join(d, name)
    doc = {'property': prop, 'configuration': res['cfg'], 'function': res['fn'],
           'source_lines': res.get('lines'), 'failed_obligation': f['property'], 'description': f['description'],
           'clause': f.get('clause'), 'spec': f.get('spec'), 'tags': f['tags'], 'checker_cmd': res.get('checker_cmd')}
    doc.update(extra)
    json.dump(doc, open(path, 'w'), indent=1)
    return path


def plan_tasks(prop, tier, builts, wd, build_errors, compile_violations):
    """the proofs (configuration, function[@case]) that carry obligations of one property in one tier"""
    cfgs = TIERS[tier]
    plan = QUICK.get(prop) if tier == 'quick' else None
    if plan is not None:
        cfgs = [c for c in cfgs if c in plan]
    tasks = []
    all_spec_names = set(); found_names = set()
    for cn in cfgs:
        restricted = CONFIGS[cn].get('props') is not None and prop not in CONFIGS[cn]['props']
        if restricted and plan is not None:
            continue
        if prop in WHOLE_CONTRACT_PROPS and plan is None and not (CONFIGS[cn].get('props') and prop in CONFIGS[cn]['props']) \
                and cn not in [CONFIGS[c].get('dedupe_against') for c in cfgs if CONFIGS[c].get('props') and prop in CONFIGS[c]['props']]:
            continue            # 'same contract in another configuration class': only the dedicated configurations (and the one they are compared with)
        if cn not in builts:
            try:
                builts[cn] = verif.build(cn, wd)
            except Exception as e:
                builts[cn] = e
        b = builts[cn]
        if isinstance(b, Exception):
            if CONFIGS[cn].get('compile_obligation') == prop and 'clang failed' in str(b):
                # the instantiation TU of a minimal-requirement archetype does not compile: the header demands more than documented
                compile_violations.append((cn, str(b)))
            else:
                build_errors.append('%s: extraction failed: %s' % (cn, str(b)[:500]))
            continue
        if plan is not None:
            # quick tier: the planned proofs of this property in this configuration
            for item in plan[cn]:
                fn0 = item.split('@')[0]
                all_spec_names.add(fn0)
                if fn0 in b.model.specs and fn0 in b.model.em.by_cname:
                    found_names.add(fn0)
                    tasks.append((b, item))
            continue
        for fn, sp in sorted(b.model.specs.items()):
            if sp.harness is None:
                continue
            all_spec_names.add(fn)
            if fn not in b.model.em.by_cname:
                continue            # not instantiated in this configuration
            found_names.add(fn)
            if restricted:
                continue            # configuration dedicated to other properties: extracted only so that the rename guard below sees its functions
            if b.cfg.get('only') is not None and fn not in b.cfg['only']:
                continue            # proved in the base configuration: this configuration only re-proves what depends on it
            if relevant(sp, prop):
                tasks.append((b, fn))
    for nm in sorted(all_spec_names - found_names) if prop not in WHOLE_CONTRACT_PROPS else []:      # (the dedicated configurations of a whole-contract property instantiate a subset)
        build_errors.append('contract target %s exists in no configuration of this tier (renamed or removed?)' % nm)
    return cfgs, tasks


def run_check(prop, tier, jobs):
    """one property, or several separated by commas (each proof is then run once and reported under every property it carries)"""
    props = prop.split(',')
    t0 = time.time()
    wd = verif.workdir()
    builts = {}
    plans = {}
    try:
        for pr in props:
            be = []; cv = []
            cfgs, tasks = plan_tasks(pr, tier, builts, wd, be, cv)
            plans[pr] = (cfgs, tasks, be, cv)
        good = {k: v for k, v in builts.items() if not isinstance(v, Exception)}
        union = {}
        for pr in props:
            for (b, item) in plans[pr][1]:
                union[(b.cfg['name'], item)] = (b, item)
        tasks, shared = dedupe_and_order(list(union.values()), good)
        results = {}
        with concurrent.futures.ThreadPoolExecutor(max_workers=jobs) as ex:
            futs = {ex.submit(verif.prove, b, fn): (b.cfg['name'], fn) for (b, fn) in tasks}
            for fut in concurrent.futures.as_completed(futs):
                results[futs[fut]] = fut.result()
        wall = time.time() - t0
        code = 0
        for pr in props:
            cfgs, ptasks, be, cv = plans[pr]
            keys = {(b.cfg['name'], item) for (b, item) in ptasks}
            res = [results[k] for k in keys if k in results]
            sh = [x for x in shared if (x.split(' == ')[0].split('/')[0], x.split(' == ')[0].split('/', 1)[1]) in keys]
            code = max(code, report(pr, tier, cfgs, res, sh, good, be, cv, wall))
        return code
    finally:
        shutil.rmtree(wd, ignore_errors=True)


def dedupe_and_order(tasks, builts):
    if True:
        cost = {}
        tp = os.path.join(ROOT, 'tools', 'timings.json')
        if os.path.exists(tp):
            cost = json.load(open(tp))
        tasks.sort(key=lambda t: -cost.get('%s/%s' % (t[0].cfg['name'], t[1]), cost.get(t[1], 60)))
        # C17 / standards: a proof is shared when the extracted text of the function and of everything it inlines is identical
        shared = []
        def closure_sig(b, item):
            fn0 = item.split('@')[0]
            sp_ = b.model.specs.get(fn0)
            parts = []
            for x in sorted(b.closure(fn0)):
                f_ = b.model.em.by_cname.get(x)
                if f_ is not None and f_.text:
                    parts.append(x + '\n' + '\n'.join(f_.text.split('\n')[1:]))
            return hash('\n'.join(parts))
        scheduled = {(b.cfg['name'], item) for (b, item) in tasks}     # a proof is shared only with a proof that runs in this very check
        kept = []
        for (b, item) in tasks:
            ref = b.cfg.get('dedupe_against')
            if ref and ref in builts and (ref, item) in scheduled and item.split('@')[0] in builts[ref].model.em.by_cname:
                if closure_sig(b, item) == closure_sig(builts[ref], item):
                    shared.append('%s/%s == %s/%s' % (b.cfg['name'], item, ref, item))
                    continue
            kept.append((b, item))
        return kept, shared


def report(prop, tier, cfgs, results, shared, builts, build_errors, compile_violations, wall):
    seed = int(os.environ.get('VERIF_SEED', '0') or 0)
    if True:
        known = load_known()
        violations = []; known_hits = []; undecided = list(build_errors)
        obligations = discharged = 0
        samples = []
        fn_rows = []
        bounded_rows = []
        bounded_fns = {n for b in builts.values() for n, sp_ in b.model.specs.items() if sp_.bound is not None}
        for r in sorted(results, key=lambda x: (x['cfg'], x['fn'])):
            if r['status'] == 'undecided':
                undecided.append('%s/%s: %s' % (r['cfg'], r['fn'], r['reason']))
                continue
            t = r['tags'].get(prop, [0, 0])
            if prop in WHOLE_CONTRACT_PROPS:
                # the property is 'the same contract holds under every standard': every obligation of these proofs is one of C17
                t = [r['obligations'], r['discharged']]
            if r.get('bounded') is not None:
                # bounded stand-in (loops unwound, unwinding assertions on): reported, never counted among the proved obligations
                bounded_rows.append({'function': r['fn'], 'configuration': r['cfg'], 'bound': 'caller range of at most %d positions; the function\'s loops unwound %d times with unwinding assertions' % (r['bounded'], r['bounded'] + 1),
                                     'obligations_of_property': t[0], 'discharged_of_property': t[1], 'status': r['status']})
            else:
                obligations += t[0]; discharged += t[1]
            fn_rows.append({'function': r['fn'], 'configuration': r['cfg'], 'source_lines': r.get('lines'),
                            'text_hash': r.get('text_hash'), 'obligations_total': r['obligations'],
                            'obligations_of_property': t[0], 'discharged_of_property': t[1],
                            'solver_s': r.get('solver_s'), 'backend': r['backend'], 'loops_closed_by_contract': r.get('loops', 0),
                            'replaced_callees': r.get('replaced', []), 'bounded_stand_in': r.get('bounded'),
                            'relies_on_bounded_contracts': [g for g in r.get('replaced', []) if g in bounded_fns]})
            for f in r['failed']:
                if prop not in f['tags'] and prop not in WHOLE_CONTRACT_PROPS:
                    continue
                kf = [k for k in known if matches(k, prop, r, f)]
                if kf:
                    known_hits.append((kf[0], r, f))
                    obligations -= 1          # reported as a known finding, not counted among the obligations claimed as proved
                else:
                    violations.append((r, f))
        # samples: three written-out obligations of this property
        for b in builts.values():
            for line, cl in sorted(b.model.clauses.items()):
                if prop in cl['tags'] and len(samples) < 3:
                    samples.append({'function': cl['fn'], 'kind': cl['kind'], 'clause': cl['text'], 'spec': cl['src'], 'configuration': b.cfg['name']})
        not_under = {}
        for b in builts.values():
            for n, e in b.errors.items():
                not_under[n] = e
        exit_code = 0
        printed = set()
        for kf, r, f in known_hits:
            key = kf['id']
            if key in printed:
                continue
            printed.add(key)
            print('KNOWN-FINDING: property=%s %s [%s]' % (prop, kf['what'], kf['id']))
        vio_paths = []
        for cn, msg in compile_violations:
            os.makedirs(os.path.join(OUT, 'replays'), exist_ok=True)
            path = os.path.join(OUT, 'replays', '%s-%s-does-not-instantiate.json' % (prop, cn))
            json.dump({'property': prop, 'configuration': cn, 'failed_obligation': 'instantiation TU %s compiles' % CONFIGS[cn]['tu'], 'compiler_output': msg[-6000:]}, open(path, 'w'), indent=1)
            print('VIOLATION property=%s replay=%s no-failing-input-found' % (prop, path))
            print('  configuration %s (%s) does not instantiate: the header requires more of the element type than the operations used document' % (cn, CONFIGS[cn]['tu']))
            exit_code = 1
        for r, f in violations:
            # a trace for the replay file (bounded size), obtained by re-running the one property
            extra = {'solver_output': 'cbmc: %s: %s: FAILURE' % (f['property'], f['description']), 'native_replay': None}
            nat = None
            if len(vio_paths) < 3:
                try:
                    nat = verif.replay_violation(builts[r['cfg']], r['fn'], f['property'], prop)
                except Exception as e:
                    nat = {'reproduced': False, 'reason': 'replay failed: %s' % str(e)[:300]}
            extra['native_replay'] = nat
            path = write_replay(prop, r, f, extra)
            vio_paths.append(path)
            print('VIOLATION property=%s replay=%s%s' % (prop, path, '' if nat and nat.get('reproduced') else ' no-failing-input-found'))
            print('  obligation %s in %s/%s (small_vector.hpp:%s): %s | %s' % (f['property'], r['cfg'], r['fn'], r.get('lines'), f['description'][:160], f.get('clause') or ''))
            exit_code = 1
        extra_rows = None
        if prop == 'C13':
            # second sentence of C13 (conversions in the byte-copy paths): c13/conv.py
            sys.path.insert(0, os.path.join(ROOT, 'c13'))
            import conv
            cr = conv.run(tier)
            obligations += cr['obligations']; discharged += cr['discharged']
            undecided.extend(cr['undecided'])
            extra_rows = {'conversion_grid_pairs_on_byte_copy_path': cr['rows'], 'conversion_grid_solver_s': cr['solver_s']}
            for v in cr['violations']:
                kf = [k for k in known if k.get('status') == 'known' and k.get('property') == 'C13' and k.get('match', {}).get('conv_key') == v['key']]
                if kf:
                    obligations -= 1
                    if kf[0]['id'] not in printed:
                        printed.add(kf[0]['id'])
                        print('KNOWN-FINDING: property=C13 %s [%s]' % (kf[0]['what'], kf[0]['id']))
                    continue
                print('VIOLATION property=C13 replay=%s%s' % (v['replay'], '' if v['reproduced'] else ' no-failing-input-found'))
                print('  ' + v['what'][:400])
                violations.append((None, v))
                exit_code = 1
        if undecided and exit_code == 0:
            exit_code = 2
        for u in undecided:
            print('UNDECIDED: %s' % u)
        ev = {
            'property_id': prop, 'tier': tier, 'seed': seed, 'level': 'proof',
            'coverage': {
                'obligations': obligations, 'discharged': discharged,
                'checker_cmd': results[0].get('checker_cmd', 'cbmc') if results else 'cbmc',
                'trusted_base': TRUSTED,
                'samples': samples,
                'functions_under_contract': fn_rows,
                'proofs_run': len(results), 'proofs_proved': sum(1 for r in results if r['status'] == 'proved'),
                'proofs_failed': sum(1 for r in results if r['status'] == 'failed'),
                'proofs_undecided': len(undecided),
                'undecided': undecided[:40],
                'configurations': cfgs,
                'proofs_shared_identical_text': shared,
                'functions_not_lowered': not_under,
                'known_findings_hit': sorted({k['id'] for k, _, _ in known_hits}),
                'known_finding_obligations': [{'id': k['id'], 'function': r['fn'], 'configuration': r['cfg'], 'obligation': f['property'], 'clause': f.get('clause')} for k, r, f in known_hits],
                'bounded_stand_ins': bounded_rows,
                'conversion_grid': extra_rows,
                'explanation': 'Obligations are CBMC properties (contract clauses, loop-invariant base/step, assigns, automatic arithmetic and pointer checks, environment preconditions) tagged with this property, over the C text extracted from /repo on this run. Each proof is complete for all inputs of its configuration class (loops closed by loop contracts; no unwinding bound).',
            },
            'assumptions': ASSUMPTIONS,
            'wall_s': round(wall, 1),
            'violations': len(violations) + len(compile_violations),
        }
        if obligations == 0 and exit_code == 0:
            print('UNDECIDED: no obligation tagged %s was generated' % prop)
            exit_code = 2
        os.makedirs(os.path.join(OUT, 'evidence'), exist_ok=True)
        json.dump(ev, open(os.path.join(OUT, 'evidence', prop + '.json'), 'w'), indent=1)
        print('%s %s: %d proofs, %d/%d obligations of %s discharged, %d violations, %d known findings, %d undecided, %.0fs' % (
            prop, tier, len(results), discharged, obligations, prop, len(violations), len(printed), len(undecided), wall))
        return exit_code
