"""Configurations: one instantiation TU + compile flags + model defines each (DESIGN.md 5.21)."""

def _c(name, **kw):
    d = {'name': name, 'tu': 'cfg_main.cpp', 'std': 'c++20', 'N': 3, 'M': None,
         'defines': ['NDEBUG'], 'model_defines': {}, 'facts': {}}
    d.update(kw)
    return d

CONFIGS = {}
def add(c):
    CONFIGS[c['name']] = c

# main: nothrow-move, copyable element; stateful non-propagating allocator; N >= 1; C++20; NDEBUG
add(_c('main', facts={'MOVE_NOEXCEPT': 1, 'COPYABLE': 1, 'RELOCATE_WITH_MOVE': 1, 'POCCA': 0, 'POCMA': 0, 'POCS': 0, 'ALWAYS_EQUAL': 0}))
# throwing move + copyable element: the strong guarantee relocates by copy
add(_c('tmove', defines=['NDEBUG', 'VT_MOVE_NOEXCEPT=0'],
       model_defines={'MOVE_MAY_THROW': 1, 'ASSIGN_MOVE_MAY_THROW': 1, 'SWAP_MAY_THROW': 1},
       facts={'MOVE_NOEXCEPT': 0, 'COPYABLE': 1, 'RELOCATE_WITH_MOVE': 0, 'POCCA': 0, 'POCMA': 0, 'POCS': 0, 'ALWAYS_EQUAL': 0}))

ALLOC_ONLY = ['svb_copy_assign__pcsvb', 'svb_copy_assign_default__pcsvb', 'svb_move_assign__psvb', 'svb_move_assign_default__psvb', 'svb_swap__psvb',
              'svb_ctor__psvb', 'svb_ctor__psvb_pcA', 'svb_ctor__pcsvb', 'svb_ctor__pcsvb_pcA', 'sv_swap', 'sv_assign__psv', 'sv_op_assign__psv', 'sv_ctor__psv', 'sv_assign__pcsv', 'sv_get_allocator']

def _alloc_cfg(name, pocca, pocma, pocs, ae, **kw):
    defs = ['NDEBUG', 'VT_POCCA=%d' % pocca, 'VT_POCMA=%d' % pocma, 'VT_POCS=%d' % pocs, 'VT_ALWAYS_EQUAL=%d' % ae]
    md = {'ALLOC_ALWAYS_EQUAL': 1} if ae else {}
    kw.setdefault('only', ALLOC_ONLY)
    return _c(name, defines=defs, model_defines=md,
              facts={'MOVE_NOEXCEPT': 1, 'COPYABLE': 1, 'RELOCATE_WITH_MOVE': 1, 'POCCA': pocca, 'POCMA': pocma, 'POCS': pocs, 'ALWAYS_EQUAL': ae}, **kw)

# allocator-trait configurations (C07, C09): all-propagating, always-equal, and the single-trait ones
add(_alloc_cfg('aprop', 1, 1, 1, 0))
add(_alloc_cfg('aeq', 0, 0, 0, 1))
add(_alloc_cfg('pocca', 1, 0, 0, 0))
add(_alloc_cfg('pocma', 0, 1, 0, 0))
add(_alloc_cfg('pocs', 0, 0, 1, 0))
add(_alloc_cfg('pocca_pocma', 1, 1, 0, 0))
add(_alloc_cfg('pocca_pocs', 1, 0, 1, 0))
add(_alloc_cfg('pocma_pocs', 0, 1, 1, 0))

# nothrow moves but a throwing ADL swap, always-equal allocator: is_nothrow_swappable decides noexcept (swap) (C18), and the C++11/14
# fallback trait for it must agree with std::is_nothrow_swappable (C17)
TSWAP_ONLY = ['sv_swap', 'svb_swap__psvb', 'svb_swap_default', 'svb_swap_elements', 'nm_swap__psv_psv']
for _nm, _std, _extra in (('tswap_aeq', 'c++20', dict(props=['C18', 'C17'])), ('tswap_aeq11', 'c++11', dict(props=['C17'], dedupe_against='tswap_aeq'))):
    _cf = _alloc_cfg(_nm, 0, 0, 0, 1, only=TSWAP_ONLY, std=_std, **_extra)
    _cf['defines'] = _cf['defines'] + ['VT_SWAP_NOEXCEPT=0']
    _cf['model_defines'] = dict(_cf['model_defines'], SWAP_MAY_THROW=1)
    _cf['facts'] = dict(_cf['facts'], SWAP_NOEXCEPT=0)
    add(_cf)

# capacity pairs: conversions between containers of different inline capacity (source role M)
PAIR_ONLY = ['sv_assign__psvM', 'sv_ctor__psvM', 'svb_ctor__psvbM', 'svb_move_assign_default__psvbM', 'svb_move_assign__psvbM', 'svb_copy_assign_default__pcsvbM', 'svb_copy_assign__pcsvbM',
             'svb_ctor__psvbM', 'svb_ctor__pcsvbM_pcA', 'svb_move_assign_unequal_no_propagate__psvbM', 'sv_assign__psvM', 'sv_assign__pcsvM']
_PF = {'MOVE_NOEXCEPT': 1, 'COPYABLE': 1, 'RELOCATE_WITH_MOVE': 1, 'POCCA': 0, 'POCMA': 0, 'POCS': 0, 'ALWAYS_EQUAL': 0}
add(_c('pair_lt', N=3, M=2, only=PAIR_ONLY, facts=dict(_PF, M_LT_N=1, M_GT_N=0)))      # source inline capacity smaller than the destination's
add(_c('pair_gt', N=3, M=5, only=PAIR_ONLY, facts=dict(_PF, M_LT_N=0, M_GT_N=1)))      # ... larger

# cross-capacity comparisons in their C++11-17 form (C16)
add(_c('pair17', N=3, M=5, std='c++17', props=['C16'], facts=dict(_PF, M_LT_N=0, M_GT_N=1)))

# inline capacity 0: no inline buffer at all (zero-capacity specialisation of small_vector_data)
N0_QUICK = ['sv_ctor__psv', 'svb_append_element__pcE', 'svb_append_copies', 'svb_shrink_to_size', 'svb_resize_with__ul_pcE', 'svb_move_assign_default__psvb', 'svb_move_assign__psvb', 'svb_swap__psvb', 'svb_ctor__psvb', 'svb_ctor__ul_pcE_pcA', 'svb_dtor', 'svb_erase_range', 'sv_inlined', 'sv_inline_capacity', 'svb_unchecked_calculate_new_capacity']
# proved in the N = 0 class (the remaining functions hit CBMC's C semantics of null-pointer relations, see DESIGN.md 12.2)
N0_ALL = ['sv_ctor__psv', 'sv_assign__psv', 'sv_op_assign__psv', 'sv_swap', 'sv_ctor__pcA', 'ai_default_uninitialized_copy__FI_FI_pE', 'ai_default_uninitialized_copy__mpE_mpE_pE', 'ai_default_uninitialized_copy__pcE_pcE_pE', 'ai_default_uninitialized_value_construct', 'ai_destroy_range__pE_pE', 'ai_external_range_length__FI_FI', 'ai_external_range_length__pcE_pcE', 'ai_uninitialized_fill__pE_pE_pcE', 'sv_append__pcE_pcE', 'sv_assign__ul_pcE', 'sv_at__ul', 'sv_at__ul_c', 'sv_back__v', 'sv_begin__v', 'sv_capacity', 'sv_cbegin', 'sv_cend', 'sv_clear', 'sv_data__v', 'sv_emplace_back__pcE', 'sv_empty', 'sv_end__v', 'sv_erase__svcit', 'sv_front__v', 'sv_get_allocator', 'sv_inlinable', 'sv_inline_capacity', 'sv_inlined', 'sv_max_size', 'sv_op_index__ul', 'sv_pop_back', 'sv_push_back__pE', 'sv_push_back__pcE', 'sv_reserve', 'sv_resize__ul', 'sv_resize__ul_pcE', 'sv_shrink_to_fit', 'sv_size', 'svb_append_copies', 'svb_append_element__pE', 'svb_append_element__pcE', 'svb_append_range__strong_pcE_pcE', 'svb_assign_with_copies', 'svb_assign_with_range__pcE_pcE', 'svb_copy_assign__pcsvb', 'svb_copy_assign_default__pcsvb', 'svb_ctor__pcA', 'svb_ctor__pcE_pcE_pcA', 'svb_ctor__pcsvb_pcA', 'svb_ctor__psvb', 'svb_ctor__ul_pcA', 'svb_ctor__ul_pcE_pcA', 'svb_dtor', 'svb_emplace_into_current__pE_pE', 'svb_emplace_into_current__pE_pcE', 'svb_erase_all', 'svb_erase_at', 'svb_erase_last', 'svb_erase_range', 'svb_insert_copies', 'svb_move_assign__psvb', 'svb_move_assign__psvb', 'svb_move_assign_default__psvb', 'svb_move_assign_unequal_no_propagate__psvb', 'svb_move_left__pE_pE_pE', 'svb_resize_with__ul', 'svb_resize_with__ul', 'svb_resize_with__ul_pcE', 'svb_resize_with__ul_pcE', 'svb_shift_into_uninitialized', 'svb_shift_into_uninitialized', 'svb_shrink_to_size', 'svb_swap__psvb', 'svb_swap__psvb', 'svb_swap_default', 'svb_swap_unequal_no_propagate', 'svb_unchecked_calculate_new_capacity', 'svb_unchecked_calculate_new_capacity']
# data () is the null pointer when empty: p + 0 and p - p on it are defined in C++ but are flagged by CBMC's C semantics,
# so the object-bounds check of pointer arithmetic is dropped in this class (element accesses stay checked through w_ok/r_ok)
add(_c('n0', N=0, only=N0_QUICK, facts=dict(_PF), drop_checks=['--pointer-overflow-check']))
add(_c('n0_full', N=0, only=N0_ALL, facts=dict(_PF), drop_checks=['--pointer-overflow-check']))

# narrow size_type (C12): 8-bit size_type / size_ty arithmetic; the caller's ranges stay 64-bit
NARROW_ONLY = ['svb_unchecked_calculate_new_capacity', 'svb_append_element__pcE', 'svb_append_copies', 'svb_request_capacity', 'svb_resize_with__ul_pcE',
               'svb_insert_copies', 'svb_append_range__strong_pcE_pcE', 'svb_assign_with_range__pcE_pcE', 'svb_ctor__pcE_pcE_pcA', 'svb_ctor__ul_pcE_pcA',
               'ai_external_range_length__pcE_pcE', 'svb_assign_with_copies', 'svb_emplace_into_reallocation__pE_pcE', 'sv_max_size', 'sv_size']
add(_c('u8', defines=['NDEBUG', 'VT_SIZE_T=std::uint8_t'], only=NARROW_ONLY, size_type='unsigned char',
       model_defines={'SIZE_T_MAX_CFG': 'UCHAR_MAX', 'DIFF_T_MAX_CFG': 'SCHAR_MAX'}, alloc_max_bound='255ul', cap_bound='255u', abbr_map={'uc': 'ul', 'sc': 'l'}, facts=dict(_PF, NARROW=1)))

# trivially copyable twin (C13): the memcpy / memmove / std::fill fast paths under the same contracts
TRIV_ONLY = ['svb_append_element__pcE', 'svb_append_copies', 'svb_request_capacity', 'svb_shrink_to_size', 'svb_emplace_into_current__pE_pcE',
             'svb_emplace_into_reallocation__pE_pcE', 'svb_erase_range', 'svb_erase_at', 'svb_erase_last', 'svb_erase_all', 'svb_assign_with_copies',
             'svb_assign_with_range__pcE_pcE', 'svb_copy_assign_default__pcsvb', 'svb_move_assign_default__psvb', 'svb_swap_default', 'svb_ctor__ul_pcE_pcA',
             'svb_ctor__ul_pcA', 'svb_ctor__pcE_pcE_pcA', 'svb_ctor__psvb', 'svb_dtor', 'svb_append_range__strong_pcE_pcE', 'svb_resize_with__ul', 'svb_resize_with__ul_pcE',
             'svb_insert_copies', 'ai_uninitialized_fill__pE_pE_pcE']
add(_c('triv', defines=['NDEBUG', 'VT_TRIVIAL'], only=TRIV_ONLY,
       model_defines={'COPY_MAY_THROW': 0, 'DEFAULT_MAY_THROW': 0, 'ASSIGN_COPY_MAY_THROW': 0, 'ELEM_TRIVIAL': 1},
       facts=dict(_PF, TRIVIAL=1)))

# minimal-requirement archetype: trivially constructible, not assignable (C13: the fast paths add no requirement).
# If this TU does not instantiate, that is a C13 violation (the compiler's diagnostic is the replay).
add(_c('triv_na', tu='cfg_na.cpp', defines=['NDEBUG', 'VT_TRIVIAL', 'VT_NO_ASSIGN'], only=['svb_ctor__ul_pcA', 'svb_ctor__ul_pcE_pcA', 'svb_append_element__pcE'],
       model_defines={'COPY_MAY_THROW': 0, 'DEFAULT_MAY_THROW': 0, 'ASSIGN_COPY_MAY_THROW': 0, 'ELEM_TRIVIAL': 1}, compile_obligation='C13', props=['C13'],
       facts=dict(_PF, TRIVIAL=1)))

# constant evaluation (C08): std::is_constant_evaluated () is true - the `if (std::is_constant_evaluated ())` branches run, the
# container always holds an allocator block (has_allocation () is true, set_to_inline_storage allocates), and nothing throws
# (a throw is not a constant expression).  The SAME contracts must hold: same sizes, values, return values and growth.
CE_ONLY = ['svb_append_element__pcE', 'svb_append_element__pE', 'svb_append_copies', 'svb_request_capacity', 'svb_shrink_to_size',
           'svb_emplace_into_current__pE_pcE', 'svb_emplace_into_current__pE_pE', 'svb_emplace_into_reallocation__pE_pcE',
           'svb_insert_copies', 'svb_erase_range', 'svb_erase_at', 'svb_erase_last', 'svb_erase_all', 'svb_erase_to_end',
           'svb_resize_with__ul', 'svb_resize_with__ul_pcE', 'svb_append_range__strong_pcE_pcE', 'svb_move_left__pE_pE_pE',
           'svb_shift_into_uninitialized', 'svb_unchecked_calculate_new_capacity', 'svb_assign_with_copies', 'svb_assign_with_range__pcE_pcE',
           'ai_external_range_length__pcE_pcE', 'ai_external_range_length__FI_FI', 'svb_dtor', 'svb_ctor__ul_pcE_pcA', 'svb_ctor__ul_pcA', 'svb_ctor__pcA', 'svb_ctor__pcE_pcE_pcA']
_NOTHROW = {'COPY_MAY_THROW': 0, 'DEFAULT_MAY_THROW': 0, 'ASSIGN_COPY_MAY_THROW': 0, 'ALLOC_MAY_THROW': 0, 'ITER_MAY_THROW': 0}
add(_c('ce', only=CE_ONLY, model_defines=dict(_NOTHROW, CONSTEVAL=1), facts=dict(_PF, CE=1), props=['C08']))
add(_c('ce_triv', defines=['NDEBUG', 'VT_TRIVIAL'], only=CE_ONLY, model_defines=dict(_NOTHROW, CONSTEVAL=1, ELEM_TRIVIAL=1), facts=dict(_PF, CE=1, TRIVIAL=1), props=['C08']))

# language standards (C17): the same TU extracted under each -std; a function whose extracted text (with everything it inlines)
# is identical to the C++20 extraction shares that proof, the others are proved against the SAME contract
for _std, _nm in (('c++11', 'std11'), ('c++14', 'std14'), ('c++17', 'std17'), ('c++2b', 'std23')):
    add(_c(_nm, std=_std, dedupe_against='main', facts=dict(_PF), props=['C17', 'C16']))

# the configuration class excluded everywhere else: inline capacity larger than max_size () (known finding KF-C12-1)
add(_c('kf_inline_gt_max', model_defines={'KF_INLINE_EXCEEDS_MAX_SIZE': 1}, only=['svb_append_element__pcE'], props=['C12'],
       facts={'MOVE_NOEXCEPT': 1, 'COPYABLE': 1, 'RELOCATE_WITH_MOVE': 1, 'POCCA': 0, 'POCMA': 0, 'POCS': 0, 'ALWAYS_EQUAL': 0}))

def cfg_defines(cfg):
    d = ['-DCFG_CAP_BOUND=%s' % cfg.get('cap_bound', '(1u<<30)'), '-DCFG_ALLOC_MAX_BOUND=%s' % cfg.get('alloc_max_bound', '(1ul<<50)')]
    if str(cfg['N']) == '0':
        d.append('-DCFG_N_ZERO')
    if cfg.get('M') is not None:
        d.append('-DCFG_HAS_M')
    if cfg.get('M') is not None and str(cfg['M']) == '0':
        d.append('-DCFG_M_ZERO')
    if cfg.get('size_type'):
        d.append('-DSIZE_TY=%s' % cfg['size_type'])
    for k, v in cfg.get('model_defines', {}).items():
        d.append('-D%s=%s' % (k, v))
    for k, v in cfg.get('facts', {}).items():
        d.append('-DFACT_%s=%s' % (k, v))
    return d

TIERS = {
    'quick': ['main', 'std11', 'std17', 'tmove', 'aprop', 'aeq', 'pocs', 'pocma', 'pair_lt', 'pair_gt', 'n0', 'u8', 'triv', 'triv_na', 'kf_inline_gt_max', 'ce', 'ce_triv', 'tswap_aeq', 'tswap_aeq11', 'pair17'],
    'thorough': ['main', 'std11', 'std14', 'std17', 'std23', 'tmove', 'aprop', 'aeq', 'pocs', 'pair_lt', 'pair_gt', 'n0_full', 'u8', 'triv', 'triv_na', 'kf_inline_gt_max', 'pocca', 'pocma', 'pocca_pocma', 'pocca_pocs', 'pocma_pocs', 'ce', 'ce_triv', 'tswap_aeq', 'tswap_aeq11', 'pair17'],
}

# ---- quick tier: per property, the proofs run on every change (measured: <= ~10 min on 16 cores each).
# The thorough tier runs every proof that carries an obligation of the property in every configuration.
_LEAVES = ['ai_destroy_range__pE_pE', 'ai_uninitialized_fill__pE_pE_pcE', 'ai_default_uninitialized_value_construct',
           'ai_default_uninitialized_copy__mpE_mpE_pE', 'ai_default_uninitialized_copy__pcE_pcE_pE', 'ai_external_range_length__pcE_pcE']
_CORE = ['svb_append_element__pcE', 'svb_append_element__pE', 'svb_append_copies', 'svb_request_capacity', 'svb_shrink_to_size',
         'svb_emplace_into_current__pE_pcE', 'svb_emplace_into_reallocation__pE_pcE', 'svb_erase_range', 'svb_erase_at', 'svb_erase_last',
         'svb_erase_all', 'svb_erase_to_end', 'svb_assign_with_copies',
         'svb_ctor__ul_pcE_pcA', 'svb_ctor__ul_pcA', 'svb_ctor__pcE_pcE_pcA', 'svb_ctor__psvb', 'svb_ctor__pcA', 'svb_dtor']
_CORE2 = ['svb_copy_assign_default__pcsvb', 'svb_move_assign_default__psvb', 'svb_swap_default', 'svb_append_range__strong_pcE_pcE']
_TMOVE = ['svb_append_element__pcE', 'svb_request_capacity', 'svb_shrink_to_size', 'svb_emplace_into_reallocation__pE_pcE', 'svb_append_range__strong_pcE_pcE',
          'ai_default_uninitialized_copy__pE_pE_pE']
_OBS = ['sv_size', 'sv_capacity', 'sv_max_size', 'sv_empty', 'sv_data__v', 'sv_begin__v', 'sv_end__v', 'sv_inlined', 'sv_inlinable', 'sv_at__ul', 'sv_op_index__ul']
_PUB = ['sv_push_back__pcE', 'sv_push_back__pE', 'sv_emplace_back__pcE', 'sv_pop_back', 'sv_clear', 'sv_reserve', 'sv_shrink_to_fit', 'sv_resize__ul',
        'sv_insert__svcit_ul_pcE', 'sv_erase__svcit', 'sv_erase__svcit_svcit', 'sv_assign__ul_pcE', 'sv_append__pcE_pcE', 'sv_append__IL', 'sv_assign__pcE_pcE', 'sv_assign__IL', 'sv_op_assign__IL']
_ALLOC = ['svb_copy_assign__pcsvb', 'svb_copy_assign_default__pcsvb', 'svb_move_assign_default__psvb', 'svb_swap_default', 'svb_ctor__psvb', 'sv_get_allocator']
_LEAVES_Q = [l for l in _LEAVES if l != 'ai_default_uninitialized_copy__pcE_pcE_pE']
_TMOVE_Q = ['svb_emplace_into_reallocation__pE_pcE', 'svb_shrink_to_size', 'svb_request_capacity', 'svb_shift_into_uninitialized']
_GLOBAL = {'main': _LEAVES_Q + _CORE, 'tmove': _TMOVE_Q}
QUICK = {
    'C01': {'main': _CORE + _CORE2 + _PUB + ['sv_at__ul', 'sv_at__ul_c', 'sv_op_index__ul', 'sv_front__v', 'sv_back__v', 'svb_emplace_at__pE_pcE', 'sv_emplace__svcit_pcE', 'sv_insert__svcit_pcE', 'sv_ctor__pcE_pcE_pcA', 'sv_ctor__IL_pcA']},
    'C02': {'main': _CORE + _OBS + ['sv_shrink_to_fit'], 'tmove': _TMOVE_Q, 'n0': ['svb_append_element__pcE', 'sv_inlined'], 'pocma': ['svb_move_assign_default__psvb'], 'pocs': ['svb_swap_default']},
    'C03': _GLOBAL, 'C04': dict(_GLOBAL, main=_LEAVES_Q + _CORE + ['svb_move_assign_default__psvb'], pair_lt=['svb_move_assign_default__psvbM']), 'C06': dict(_GLOBAL, main=_LEAVES_Q + _CORE + ['svb_swap_default'], tmove=_TMOVE_Q + ['svb_insert_copies@tail_lt']),
    'C12': dict(tmove=['svb_append_element__pcE', 'svb_request_capacity'], kf_inline_gt_max=['svb_append_element__pcE'], main=['ai_uninitialized_fill__pE_pE_pcE', 'ai_external_range_length__pcE_pcE', 'svb_unchecked_calculate_new_capacity', 'svb_append_element__pcE', 'svb_append_copies', 'svb_request_capacity',
                      'svb_emplace_into_reallocation__pE_pcE', 'svb_assign_with_copies', 'svb_ctor__ul_pcE_pcA', 'svb_ctor__pcE_pcE_pcA', 'svb_append_range__strong_pcE_pcE',
                      'svb_insert_copies@realloc', 'sv_max_size', 'sv_reserve'],
                u8=['ai_external_range_length__pcE_pcE', 'svb_unchecked_calculate_new_capacity', 'svb_append_copies', 'svb_ctor__pcE_pcE_pcA']),
    'C13': {'main': _LEAVES_Q + ['svb_append_element__pcE', 'svb_emplace_into_current__pE_pcE', 'svb_erase_range', 'svb_ctor__ul_pcA', 'svb_request_capacity'],
            'triv': ['ai_uninitialized_fill__pE_pE_pcE', 'svb_append_element__pcE', 'svb_emplace_into_current__pE_pcE', 'svb_erase_range', 'svb_ctor__ul_pcA', 'svb_ctor__ul_pcE_pcA',
                     'svb_request_capacity', 'svb_assign_with_copies', 'svb_copy_assign_default__pcsvb', 'svb_ctor__pcE_pcE_pcA'],
            'triv_na': ['svb_ctor__ul_pcA', 'svb_ctor__ul_pcE_pcA']},
    'C05': {'main': ['svb_append_element__pcE', 'svb_append_element__pE', 'svb_request_capacity', 'svb_shrink_to_size', 'svb_resize_with__ul', 'svb_append_range__strong_pcE_pcE',
                     'svb_append_range__strong_FI_FI', 'svb_emplace_into_reallocation__pE_pcE', 'sv_push_back__pcE', 'sv_push_back__pE', 'sv_emplace_back__pcE', 'sv_reserve',
                     'sv_shrink_to_fit', 'sv_resize__ul', 'sv_append__pcE_pcE'],
            'tmove': _TMOVE + ['svb_resize_with__ul', 'svb_append_element__pE']},
    'C07': {'main': _ALLOC + ['svb_ctor__ul_pcE_pcA', 'svb_ctor__pcA', 'svb_ctor__pcsvb_pcA', 'svb_ctor__pcsvb', 'sv_ctor__pcsv_pcA', 'sv_assign__pcsv', 'sv_op_assign__pcsv'], 'aprop': _ALLOC + ['svb_ctor__pcsvb', 'sv_assign__pcsv'], 'aeq': _ALLOC, 'pocs': _ALLOC,
            'pocma': ['svb_move_assign_default__psvb', 'svb_move_assign__psvb', 'svb_copy_assign__pcsvb']},
    'C09': {'main': ['svb_move_assign_default__psvb', 'svb_swap_default', 'svb_ctor__psvb', 'svb_move_assign_unequal_no_propagate__psvb', 'svb_swap_unequal_no_propagate', 'svb_dtor', 'svb_ctor__pcA'],
            'pocs': ['svb_swap__psvb', 'svb_swap_default', 'svb_move_assign_default__psvb'], 'aeq': ['svb_swap_default', 'svb_move_assign_default__psvb'],
            'pair_lt': ['svb_move_assign_default__psvbM', 'svb_move_assign__psvbM'], 'pair_gt': ['svb_move_assign__psvbM', 'svb_move_assign_unequal_no_propagate__psvbM']},
    'C10': {'main': ['svb_append_element__pcE', 'svb_append_element__pE', 'svb_append_copies', 'svb_request_capacity', 'svb_emplace_into_current__pE_pcE',
                     'svb_emplace_into_reallocation__pE_pcE', 'svb_erase_range', 'svb_erase_at', 'svb_erase_last', 'svb_erase_all', 'svb_erase_to_end', 'svb_assign_with_copies',
                     'svb_copy_assign_default__pcsvb', 'svb_append_range__strong_pcE_pcE', 'svb_resize_with__ul', 'svb_insert_copies@trivial', 'svb_insert_copies@realloc',
                     'sv_reserve', 'sv_pop_back', 'sv_clear', 'sv_push_back__pcE']},
    'C11': {'main': ['svb_append_element__pcE', 'svb_append_copies', 'svb_emplace_into_current__pE_pcE', 'svb_emplace_into_reallocation__pE_pcE', 'svb_insert_copies@trivial',
                     'svb_insert_copies@realloc', 'svb_insert_copies@tail_ge', 'ai_uninitialized_fill__pE_pE_pcE', 'sv_push_back__pcE', 'sv_emplace_back__pcE', 'sv_insert__svcit_ul_pcE', 'sv_insert__svcit_pcE']},
    'C14': {'main': ['svb_unchecked_calculate_new_capacity', 'svb_append_element__pcE', 'svb_append_copies', 'svb_request_capacity', 'svb_emplace_into_reallocation__pE_pcE',
                     'svb_assign_with_copies', 'svb_copy_assign_default__pcsvb', 'svb_append_range__strong_pcE_pcE', 'svb_resize_with__ul', 'svb_insert_copies@realloc', 'sv_reserve'],
            'n0': ['svb_append_element__pcE', 'svb_unchecked_calculate_new_capacity']},
    'C17': {'tswap_aeq': ['svb_swap_elements', 'svb_swap_default'], 'tswap_aeq11': ['svb_swap_elements', 'svb_swap_default'],
            'main': ['svb_append_element__pcE', 'svb_emplace_into_current__pE_pcE', 'svb_shrink_to_size', 'svb_move_assign_default__psvb', 'svb_erase_range',
                     'svb_request_capacity', 'ai_external_range_length__pcE_pcE', 'sv_erase__svcit', 'sv_push_back__pcE', 'svb_ctor__ul_pcE_pcA'],
            'std11': ['svb_append_element__pcE', 'svb_emplace_into_current__pE_pcE', 'svb_shrink_to_size', 'svb_move_assign_default__psvb', 'svb_erase_range',
                      'svb_request_capacity', 'ai_external_range_length__pcE_pcE', 'sv_erase__svcit', 'sv_push_back__pcE', 'svb_ctor__ul_pcE_pcA'],
            'std17': ['svb_append_element__pcE', 'svb_emplace_into_current__pE_pcE', 'svb_shrink_to_size', 'svb_move_assign_default__psvb', 'svb_erase_range',
                      'svb_request_capacity', 'ai_external_range_length__pcE_pcE', 'sv_erase__svcit', 'sv_push_back__pcE', 'svb_ctor__ul_pcE_pcA']},
    'C08': {'ce': ['svb_append_element__pcE', 'svb_emplace_into_current__pE_pcE', 'svb_emplace_into_current__pE_pE', 'svb_shrink_to_size', 'svb_request_capacity', 'svb_erase_range',
                   'svb_dtor', 'svb_ctor__pcA', 'svb_ctor__ul_pcE_pcA', 'svb_move_left__pE_pE_pE', 'svb_assign_with_copies'],
            'ce_triv': ['svb_append_element__pcE', 'svb_emplace_into_current__pE_pcE', 'svb_erase_range', 'svb_append_range__strong_pcE_pcE', 'svb_assign_with_range__pcE_pcE',
                        'svb_move_left__pE_pE_pE', 'svb_ctor__pcE_pcE_pcA', 'svb_resize_with__ul']},
    'C16': {'pair17': ['nm_op_eq__pcsv_pcsvM', 'nm_op_ne__pcsv_pcsvM', 'nm_op_lt__pcsv_pcsvM', 'nm_op_lt__pcsvM_pcsv', 'nm_op_ge__pcsv_pcsvM', 'nm_op_ge__pcsvM_pcsv', 'nm_op_gt__pcsv_pcsvM', 'nm_op_le__pcsv_pcsvM'],
            'main': ['nm_op_eq__pcsv_pcsv', 'nm_size__pcsv', 'nm_swap__psv_psv', 'nm_erase__psv_pcE', 'nm_erase_if__psv_P'],
            'std17': ['nm_op_eq__pcsv_pcsv', 'nm_op_ne__pcsv_pcsv', 'nm_op_lt__pcsv_pcsv', 'nm_op_ge__pcsv_pcsv', 'nm_op_gt__pcsv_pcsv', 'nm_op_le__pcsv_pcsv', 'nm_size__pcsv',
                      'nm_ssize__pcsv', 'nm_empty__pcsv', 'nm_data__psv', 'nm_begin__psv', 'nm_end__psv', 'nm_swap__psv_psv', 'nm_erase__psv_pcE', 'nm_erase_if__psv_P']},
    'C15': {'main': ['ai_external_range_length__FI_FI', 'ai_default_uninitialized_copy__FI_FI_pE', 'svb_append_range__strong_FI_FI', 'ai_external_range_length__pcE_pcE',
                     'svb_ctor__ul_pG_pcA', 'svb_ctor__II_II_pcA', 'svb_append_range__II_II', 'svb_append_range__strong_II_II', 'svb_assign_with_range__II_II', 'svb_insert_range__pE_II_II', 'sv_append__II_II', 'sv_ctor__II_II_pcA']},
    'C18': {'pair_gt': ['svb_ctor__psvbM', 'sv_ctor__psvM', 'sv_assign__psvM'], 'pair_lt': ['svb_ctor__psvbM', 'sv_ctor__psvM', 'sv_assign__psvM', 'svb_move_assign__psvbM'],
            'pocs': ['sv_op_assign__psv', 'sv_swap'], 'pocma': ['sv_op_assign__psv', 'sv_assign__psv', 'sv_swap'], 'aeq': ['sv_op_assign__psv', 'sv_swap'],
            'tmove': ['sv_ctor__psv', 'sv_op_assign__psv'], 'n0': ['sv_ctor__psv'], 'tswap_aeq': ['sv_swap', 'svb_swap_elements'],
            'main': ['sv_ctor__pcA', 'sv_ctor__psv', 'sv_op_assign__psv', 'sv_assign__psv', 'sv_swap', 'sv_get_allocator', 'sv_max_size', 'sv_empty', 'ai_external_range_length__FI_FI', 'ai_destroy_range__pE_pE', 'svb_erase_last', 'svb_erase_all', 'svb_erase_to_end', 'svb_dtor', 'svb_ctor__pcA', 'svb_ctor__psvb',
                     'svb_move_assign_default__psvb', 'svb_swap_default', 'sv_size', 'sv_capacity', 'sv_clear', 'sv_pop_back', 'svb_erase_range', 'svb_emplace_into_current__pE_pE']},
}
