"""Configurations: one instantiation TU + compile flags + model defines each (DESIGN.md 5.21)."""

def _c(name, **kw):
    d = {'name': name, 'tu': 'cfg_main.cpp', 'std': 'c++20', 'N': 3, 'M': None,
         'defines': ['NDEBUG'], 'model_defines': {}, 'facts': {}}
    d.update(kw)
    return d

CONFIGS = {}
def add(c):
    CONFIGS[c['name']] = c

# main: nothrow-move, copyable element; stateful non-propagating allocator; N >= 1; C++20; NDEBUG
add(_c('main', facts={'MOVE_NOEXCEPT': 1, 'COPYABLE': 1, 'RELOCATE_WITH_MOVE': 1, 'POCCA': 0, 'POCMA': 0, 'POCS': 0, 'ALWAYS_EQUAL': 0}))
# throwing move + copyable element: the strong guarantee relocates by copy
add(_c('tmove', defines=['NDEBUG', 'VT_MOVE_NOEXCEPT=0'],
       model_defines={'MOVE_MAY_THROW': 1, 'ASSIGN_MOVE_MAY_THROW': 1, 'SWAP_MAY_THROW': 1},
       facts={'MOVE_NOEXCEPT': 0, 'COPYABLE': 1, 'RELOCATE_WITH_MOVE': 0, 'POCCA': 0, 'POCMA': 0, 'POCS': 0, 'ALWAYS_EQUAL': 0}))

ALLOC_ONLY = ['svb_copy_assign__pcsvb', 'svb_copy_assign_default__pcsvb', 'svb_move_assign__psvb', 'svb_move_assign_default__psvb', 'svb_swap__psvb',
              'svb_ctor__psvb', 'svb_ctor__psvb_pcA', 'svb_ctor__pcsvb', 'svb_ctor__pcsvb_pcA', 'sv_swap', 'sv_assign__psv', 'sv_assign__pcsv', 'sv_get_allocator']

def _alloc_cfg(name, pocca, pocma, pocs, ae, **kw):
    defs = ['NDEBUG', 'VT_POCCA=%d' % pocca, 'VT_POCMA=%d' % pocma, 'VT_POCS=%d' % pocs, 'VT_ALWAYS_EQUAL=%d' % ae]
    md = {'ALLOC_ALWAYS_EQUAL': 1} if ae else {}
    kw.setdefault('only', ALLOC_ONLY)
    return _c(name, defines=defs, model_defines=md,
              facts={'MOVE_NOEXCEPT': 1, 'COPYABLE': 1, 'RELOCATE_WITH_MOVE': 1, 'POCCA': pocca, 'POCMA': pocma, 'POCS': pocs, 'ALWAYS_EQUAL': ae}, **kw)

# allocator-trait configurations (C07, C09): all-propagating, always-equal, and the single-trait ones
add(_alloc_cfg('aprop', 1, 1, 1, 0))
add(_alloc_cfg('aeq', 0, 0, 0, 1))
add(_alloc_cfg('pocca', 1, 0, 0, 0))
add(_alloc_cfg('pocma', 0, 1, 0, 0))
add(_alloc_cfg('pocs', 0, 0, 1, 0))
add(_alloc_cfg('pocca_pocma', 1, 1, 0, 0))
add(_alloc_cfg('pocca_pocs', 1, 0, 1, 0))
add(_alloc_cfg('pocma_pocs', 0, 1, 1, 0))

# capacity pairs: conversions between containers of different inline capacity (source role M)
PAIR_ONLY = ['svb_move_assign_default__psvbM', 'svb_move_assign__psvbM', 'svb_copy_assign_default__pcsvbM', 'svb_copy_assign__pcsvbM',
             'svb_ctor__psvbM', 'svb_ctor__pcsvbM_pcA', 'svb_move_assign_unequal_no_propagate__psvbM', 'sv_assign__psvM', 'sv_assign__pcsvM']
_PF = {'MOVE_NOEXCEPT': 1, 'COPYABLE': 1, 'RELOCATE_WITH_MOVE': 1, 'POCCA': 0, 'POCMA': 0, 'POCS': 0, 'ALWAYS_EQUAL': 0}
add(_c('pair_lt', N=3, M=2, only=PAIR_ONLY, facts=dict(_PF, M_LT_N=1, M_GT_N=0)))      # source inline capacity smaller than the destination's
add(_c('pair_gt', N=3, M=5, only=PAIR_ONLY, facts=dict(_PF, M_LT_N=0, M_GT_N=1)))      # ... larger

# the configuration class excluded everywhere else: inline capacity larger than max_size () (known finding KF-C12-1)
add(_c('kf_inline_gt_max', model_defines={'KF_INLINE_EXCEEDS_MAX_SIZE': 1}, only=['svb_append_element__pcE'], props=['C12'],
       facts={'MOVE_NOEXCEPT': 1, 'COPYABLE': 1, 'RELOCATE_WITH_MOVE': 1, 'POCCA': 0, 'POCMA': 0, 'POCS': 0, 'ALWAYS_EQUAL': 0}))

def cfg_defines(cfg):
    d = ['-DCFG_CAP_BOUND=(1u<<30)', '-DCFG_ALLOC_MAX_BOUND=(1ul<<50)']
    if str(cfg['N']) == '0':
        d.append('-DCFG_N_ZERO')
    if cfg.get('M') is not None:
        d.append('-DCFG_HAS_M')
    if cfg.get('M') is not None and str(cfg['M']) == '0':
        d.append('-DCFG_M_ZERO')
    for k, v in cfg.get('model_defines', {}).items():
        d.append('-D%s=%s' % (k, v))
    for k, v in cfg.get('facts', {}).items():
        d.append('-DFACT_%s=%s' % (k, v))
    return d

TIERS = {
    'quick': ['main', 'tmove', 'aprop', 'aeq', 'pocs', 'kf_inline_gt_max'],
    'thorough': ['main', 'tmove', 'aprop', 'aeq', 'pocs', 'kf_inline_gt_max', 'pocca', 'pocma', 'pocca_pocma', 'pocca_pocs', 'pocma_pocs'],
}
