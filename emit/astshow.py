import sys, json
sys.path.insert(0,'/verif/emit')
import astload
def show(n, ind=0, out=sys.stdout, maxd=60):
    k=n.get('kind') or '?'
    bits=[k]
    for key in ('name','opcode','castKind','valueCategory','value','isArrow','isPostfix','argType'):
        if key in n: bits.append('%s=%s'%(key,n[key]))
    if 'type' in n:
        t=n['type']; bits.append('T<%s%s>'%(t.get('qualType'),('|'+t['desugaredQualType']) if 'desugaredQualType' in t else ''))
    if 'referencedDecl' in n:
        r=n['referencedDecl']; bits.append('ref=%s:%s:%s'%(r.get('kind'),r.get('name'),r.get('id')))
    if 'referencedMemberDecl' in n: bits.append('mref=%s'%n['referencedMemberDecl'])
    if 'id' in n and k.endswith('Decl'): bits.append('id=%s'%n['id'])
    if 'ctorType' in n: bits.append('ctor=%s'%n['ctorType'].get('qualType'))
    out.write('  '*ind+' '.join(bits)+'\n')
    if ind<maxd:
        for c in n.get('inner',[]): show(c,ind+1,out,maxd)
def find_methods(root,name,acc,inspec=False):
    for c in root.get('inner',[]):
        if c.get('kind')=='ClassTemplateSpecializationDecl': 
            find_methods(c,name,acc,True); continue
        if not inspec:
            find_methods(c,name,acc,False); continue
        if c.get('kind') in ('CXXMethodDecl','CXXConstructorDecl','CXXDestructorDecl','FunctionDecl') and c.get('name')==name and any(x['kind']=='CompoundStmt' for x in c.get('inner',[])) :
            acc.append(c)
        find_methods(c,name,acc,inspec)
if __name__=='__main__':
    objs=astload.load_stream(open(sys.argv[1]).read())
    acc=[]
    for o in objs: find_methods(o,sys.argv[2],acc)
    for m in acc:
        if not any(x['kind'] in('TemplateTypeParmDecl',) for x in m.get('inner',[])):
            print('=====',m.get('mangledName'))
            show(m)
