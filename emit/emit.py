#!/usr/bin/env python3
"""Mechanical lowering of the *instantiated* member functions of gch::small_vector (clang JSON AST)
to C for CBMC.  See DESIGN.md section 3.3 for the rule list (r1..r15).  Every AST shape that has no
rule raises Unsupported: the function is then reported as not lowered, never silently approximated.
"""
import json, re, sys, os, collections
sys.path.insert(0, os.path.dirname(os.path.abspath(__file__)))
from cxxtypes import TypeMap, CType, TypeErr, parse_fn_type, split_top

FN_KINDS = ('CXXMethodDecl', 'CXXConstructorDecl', 'CXXDestructorDecl', 'FunctionDecl', 'CXXConversionDecl')


class Unsupported(Exception):
    pass


OPNAMES = {
    'operator==': 'op_eq', 'operator!=': 'op_ne', 'operator<': 'op_lt', 'operator>': 'op_gt',
    'operator<=': 'op_le', 'operator>=': 'op_ge', 'operator+': 'op_plus', 'operator-': 'op_minus',
    'operator++': 'op_inc', 'operator--': 'op_dec', 'operator+=': 'op_addassign',
    'operator-=': 'op_subassign', 'operator*': 'op_deref', 'operator->': 'op_arrow',
    'operator[]': 'op_index', 'operator=': 'op_assign', 'operator()': 'op_call',
    'operator<=>': 'op_spaceship',
}

EXC_KINDS = {'length_error': 'EXC_LENGTH_ERROR', 'out_of_range': 'EXC_OUT_OF_RANGE'}


def has_body(n):
    return any(c.get('kind') == 'CompoundStmt' for c in n.get('inner', []))


def targs(n):
    return [c for c in n.get('inner', []) if c.get('kind') == 'TemplateArgument']


class Fn:
    """an extracted (or extractable) function definition"""
    def __init__(self, node, record, ns):
        self.node = node
        self.id = node['id']
        self.record = record        # Record or None
        self.ns = ns
        self.name = node.get('name', '')
        self.kind = node['kind']
        self.mangled = node.get('mangledName')
        self.is_template_spec = bool(targs(node))
        self.cname = None
        self.text = None
        self.error = None
        self.callees = set()        # cnames of extracted callees
        self.boundary = set()       # env function names used
        self.loops = 0
        self.rules = collections.Counter()
        self.lines = (None, None)
        self.params = []            # [(cname, CType, node)]
        self.ret = None
        self.noexcept = False
        self.is_static = node.get('storageClass') == 'static'
        self.is_const = False
        self.maythrow_calls = 0


class Record:
    def __init__(self, node, ns, outer=None):
        self.node = node
        self.id = node['id']
        self.name = node.get('name', '')
        self.ns = ns
        self.outer = outer
        self.args = []
        for a in targs(node):
            if 'type' in a:
                self.args.append(a['type']['qualType'])
            elif 'value' in a:
                self.args.append(str(a['value']))
            else:
                self.args.append('?')
        self.tag = None      # C struct tag without 'struct '
        self.prefix = None   # function-name prefix
        self.fields = []
        self.bases = []

    def spelling(self):
        if self.outer is not None:
            return self.outer.spelling() + '::' + self.name
        s = self.ns + self.name
        if self.args:
            s += '<' + ', '.join(self.args) + '>'
        return s


class Emitter:
    def __init__(self, objs, nounwind, cfg):
        self.cfg = cfg
        self.nounwind = nounwind           # mangled name -> bool
        self.fns = {}                      # id -> Fn
        self.records = {}                  # id -> Record
        self.field_decls = {}              # id -> FieldDecl node
        self.rec_by_spelling = {}
        self.alias = {}
        self.name_decl_count = collections.Counter()   # (record id or ns, name) -> number of declarations (incl. patterns)
        self.line = 0
        self.file = None
        self.var_names = {}
        self.env_decls = cfg.get('env_decls', set())
        self.missing_boundary = collections.Counter()
        self.N_rep = str(cfg['N'])
        self.M_rep = str(cfg['M']) if cfg.get('M') is not None else None
        for o in objs:
            self._index(o, 'gch::', None, False)
        self.alias.update({'vt::input_it::reference': 'const vt::elem &', 'vt::fwd_it::reference': 'const vt::elem &',
                           'vt::input_it::difference_type': 'long', 'vt::fwd_it::difference_type': 'long'})
        self.tm = TypeMap(self._class_map, self.alias,
                          tag_names={'std::input_iterator_tag', 'std::forward_iterator_tag',
                                     'std::bidirectional_iterator_tag', 'std::random_access_iterator_tag',
                                     'std::contiguous_iterator_tag'},
                          elem_names={'vt::elem'})
        self._assign_tags()
        self._assign_names()

    # ------------------------------------------------------------------ indexing
    def _track_loc(self, n):
        for key in ('loc', 'range'):
            l = n.get(key)
            if not l:
                continue
            cands = [l] if key == 'loc' else [l.get('begin', {}), l.get('end', {})]
            for c in cands:
                for cc in (c, c.get('expansionLoc', {}), c.get('spellingLoc', {})):
                    pass
        # line tracking: clang omits 'line' when unchanged; we record begin/end lazily in _lines()

    def _index(self, n, ns, rec, in_pattern):
        k = n.get('kind')
        if k == 'NamespaceDecl':
            for c in n.get('inner', []):
                self._index(c, ns + n.get('name', '') + '::', rec, in_pattern)
            return
        if k == 'ClassTemplateDecl':
            for c in n.get('inner', []):
                ck = c.get('kind')
                if ck == 'CXXRecordDecl':
                    self._count_decls(c, (ns, n.get('name')))
                elif ck == 'ClassTemplateSpecializationDecl':
                    self._index_record(c, ns, None)
            return
        if k == 'ClassTemplateSpecializationDecl':
            self._index_record(n, ns, rec)
            return
        if k == 'CXXRecordDecl' and rec is not None and n.get('completeDefinition'):
            self._index_record(n, ns, rec)
            return
        if k == 'FunctionTemplateDecl':
            for c in n.get('inner', []):
                if c.get('kind') in FN_KINDS and targs(c):
                    self._add_fn(c, rec, ns, template=True)
            return
        if k in FN_KINDS:
            self._add_fn(n, rec, ns, template=False)
            return
        if k in ('TypeAliasDecl', 'TypedefDecl') and rec is not None:
            t = n.get('type', {})
            target = t.get('desugaredQualType') or t.get('qualType')
            if target and n.get('name'):
                self.alias[rec.spelling() + '::' + n['name']] = target
            return

    def _count_decls(self, pattern, key):
        for c in pattern.get('inner', []):
            ck = c.get('kind')
            if ck in FN_KINDS:
                self.name_decl_count[(key, c.get('name'))] += 1
            elif ck == 'FunctionTemplateDecl':
                self.name_decl_count[(key, c.get('name'))] += 2   # templates are always tagged
            elif ck == 'CXXRecordDecl' and c.get('completeDefinition'):
                self._count_decls(c, (key, c.get('name')))

    def _index_record(self, n, ns, outer):
        if not n.get('completeDefinition') and not any(c.get('kind') in FN_KINDS for c in n.get('inner', [])):
            # declaration only
            if n['id'] not in self.records:
                r = Record(n, ns, outer); self.records[n['id']] = r
            return
        r = Record(n, ns, outer)
        prev = self.records.get(n['id'])
        self.records[n['id']] = r
        self.rec_by_spelling[r.spelling()] = r
        for b in n.get('bases', []):
            r.bases.append(b['type'].get('desugaredQualType') or b['type']['qualType'])
        for c in n.get('inner', []):
            ck = c.get('kind')
            if ck == 'FieldDecl':
                r.fields.append(c)
                self.field_decls[c['id']] = c
            elif ck == 'CXXRecordDecl' and c.get('completeDefinition') and c.get('name') != n.get('name'):
                self._index_record(c, ns, r)
            elif ck == 'CXXRecordDecl':
                pass
            else:
                self._index(c, ns, r, False)

    def _add_fn(self, n, rec, ns, template):
        f = Fn(n, rec, ns)
        f.from_template = template
        # redeclarations: keep the one with a body
        if f.id in self.fns and not has_body(n):
            return
        self.fns[f.id] = f
        prev = n.get('previousDecl')
        if prev and has_body(n):
            self.fns[prev] = f

    # ------------------------------------------------------------------ type mapping
    def role(self, capval):
        capval = str(capval).rstrip('uU')
        if capval == self.N_rep:
            return ''
        if self.M_rep is not None and capval == self.M_rep:
            return 'M'
        raise TypeErr('inline capacity %s is not a role of this configuration (N=%s M=%s)' % (capval, self.N_rep, self.M_rep))

    def _class_map(self, name, args, rest, tm):
        n = name
        if n.startswith('gch::detail::'):
            n = n[len('gch::detail::'):]
        elif n.startswith('gch::'):
            n = n[len('gch::'):]
        if name == 'vt::alloc':
            return 'struct Alloc'
        if name in ('vt::input_it',):
            return 'struct InputIt'
        if name in ('vt::fwd_it',):
            return 'struct FwdIt'
        if name == 'vt::gen':
            return 'struct Gen'
        if name == 'vt::pred':
            return 'struct Pred'
        if n == 'small_vector_base':
            role = self.role(args[1])
            if rest is None:
                return 'struct svb' + role
            if rest == 'stack_temporary':
                return 'struct stmp' + role
            if rest == 'heap_temporary':
                return 'struct htmp' + role
            if rest in ('bypass_tag', 'strong_exception_policy'):
                return 'TAG'
            return None
        if n == 'allocator_interface' and rest is None:
            return 'struct ai'
        if n == 'allocator_inliner' and rest is None:
            return 'struct ainl'
        if n == 'small_vector_data_base' and rest is None:
            return 'struct svdb'
        if n == 'small_vector_data' and rest is None:
            return 'struct svd' + self.role(args[3])
        if n == 'inline_storage' and rest is None:
            return 'struct inl' + self.role(args[1])
        if n == 'small_vector' and rest is None:
            return 'struct sv' + self.role(args[1])
        if n == 'small_vector_iterator' and rest is None:
            p = tm.ctype(args[0])
            if p.base == 'Elem' and p.ptrs == 1:
                return 'struct svcit' if p.const_base else 'struct svit'
            return None
        if name == 'std::move_iterator' and rest is None:
            return tm.ctype(args[0])
        if name == 'std::reverse_iterator' and rest is None:
            inner = tm.ctype(args[0])
            return 'struct rev_' + inner.abbr()
        if name == 'std::initializer_list' and rest is None:
            return 'struct IList'
        if name == 'std::integral_constant':
            return 'TAG'
        if name == 'alloc' and rest is None:
            return 'struct Alloc'
        if name in ('move_iterator', 'std::move_iterator') and rest is None:
            return tm.ctype(args[0])
        if name in ('elem',):
            return 'Elem'
        if name in ('fwd_it',):
            return 'struct FwdIt'
        if name in ('input_it',):
            return 'struct InputIt'
        if name.endswith('iterator_traits') and rest == 'difference_type':
            return 'long'
        if name in ('std::reverse_iterator',) and rest == 'iterator_type':
            return tm.ctype(args[0])
        if name.endswith('enable_if') and rest == 'type':
            return tm.ctype(args[1]) if len(args) > 1 else 'void'
        if name == 'std::allocator_traits' and rest in ('const_void_pointer',):
            return tm.ctype('const void *')
        if name == 'std::allocator_traits' and rest in ('void_pointer',):
            return tm.ctype('void *')
        if name == 'std::allocator_traits' and rest is not None:
            if rest in ('pointer',):
                return tm.ctype('vt::elem *')
            if rest in ('const_pointer',):
                return tm.ctype('const vt::elem *')
            if rest == 'size_type':
                return tm.ctype(self.cfg.get('size_type', 'unsigned long'))
            if rest == 'difference_type':
                return tm.ctype('long')
        return None

    def ct(self, t):
        """C type of a JSON type dict"""
        if isinstance(t, str):
            return self.tm.ctype(t)
        s = t.get('desugaredQualType') or t.get('qualType')
        try:
            return self.tm.ctype(s)
        except TypeErr:
            if 'desugaredQualType' in t:
                return self.tm.ctype(t['qualType'])
            raise

    def _assign_tags(self):
        for r in list(self.records.values()):
            try:
                c = self.tm.ctype(r.spelling())
            except TypeErr as e:
                r.tag = None
                continue
            if c.tag or not c.base.startswith('struct '):
                r.tag = None
                continue
            r.tag = c.base[len('struct '):]
            r.prefix = r.tag

    # ------------------------------------------------------------------ naming
    def _fn_base_name(self, f):
        n = f.name
        if f.kind == 'CXXConstructorDecl':
            return 'ctor'
        if f.kind == 'CXXDestructorDecl':
            return 'dtor'
        if n in OPNAMES:
            return OPNAMES[n]
        if n.startswith('operator'):
            return 'op_' + re.sub(r'\W+', '_', n[8:])
        return re.sub(r'\W+', '_', n)

    def _assign_names(self):
        groups = collections.defaultdict(list)
        for f in set(self.fns.values()):
            if not has_body(f.node):
                continue
            if f.record is not None and f.record.tag is None:
                continue
            prefix = f.record.prefix if f.record is not None else 'nm'
            groups[(prefix, self._fn_base_name(f))].append(f)
        for (prefix, base), fl in groups.items():
            for f in fl:
                tagged = f.from_template or f.kind == 'CXXConstructorDecl'
                if not tagged:
                    key = self._decl_key(f)
                    if self.name_decl_count.get(key, 0) > 1 or len(fl) > 1:
                        tagged = True
                name = prefix + '_' + base
                try:
                    self._signature(f)
                except (TypeErr, Unsupported) as e:
                    f.error = 'signature: %s' % e
                    f.cname = name + '__unsupported_%s' % f.id
                    continue
                if tagged:
                    tag = '_'.join(self._pabbr(p) for p in f.params if not p[1].tag and p[0] != 'self')
                    pol = ''
                    for a in targs(f.node):
                        q = a.get('type', {}).get('qualType', '')
                        if 'strong_exception_policy' in q:
                            pol = 'strong_'
                    name += '__' + pol + (tag if tag else 'v')
                f.cname = name
            # resolve collisions (const / non-const overloads)
            seen = collections.defaultdict(list)
            for f in fl:
                seen[f.cname].append(f)
            for cn, ff in seen.items():
                if len(ff) > 1:
                    for f in ff:
                        if f.is_const:
                            f.cname = cn + '_c'
                    names = [f.cname for f in ff]
                    if len(set(names)) != len(names):
                        for f in ff:
                            ta = []
                            for a in targs(f.node):
                                q = a.get('type', {}).get('qualType')
                                if q:
                                    try:
                                        ta.append(('m' if 'move_iterator' in q else '') + self.tm.ctype(q).abbr())
                                    except TypeErr:
                                        ta.append('x')
                            f.cname = f.cname + '_T' + '_'.join(ta)
                    names = [f.cname for f in ff]
                    if len(set(names)) != len(names):
                        for i, f in enumerate(sorted(ff, key=lambda x: x.mangled or x.id)):
                            f.cname = f.cname + '_v%d' % i
        self.by_cname = {}
        for f in set(self.fns.values()):
            if f.cname:
                self.by_cname[f.cname] = f

    def _pabbr(self, p):
        a = p[1].abbr()
        a = self.cfg.get('abbr_map', {}).get(a, a)      # narrow size_type configurations keep the function names of the 64-bit one
        if p[2] is not None and 'move_iterator' in (p[2]['type'].get('desugaredQualType') or p[2]['type']['qualType']):
            a = 'm' + a
        return a

    def _decl_key(self, f):
        r = f.record
        if r is None:
            return (f.ns, f.name)
        key = (r.ns, r.name)
        chain = []
        while r.outer is not None:
            chain.append(r.name); r = r.outer
        key = (r.ns, r.name)
        for nm in reversed(chain):
            key = (key, nm)
        return (key, f.name)

    def _signature(self, f):
        n = f.node
        qt = n['type']['qualType']
        # strip trailing qualifiers to find const-ness of the method
        m = re.search(r'\)\s*(const)?\s*(&|&&)?\s*(noexcept(\(.*\))?)?\s*(->.*)?$', qt)
        f.is_const = bool(m and m.group(1))
        params = []
        if f.record is not None and not f.is_static:
            selft = CType('struct ' + f.record.tag, 1, f.is_const)
            params.append(('self', selft, None))
        for c in n.get('inner', []):
            if c.get('kind') == 'ParmVarDecl':
                t = self.ct(c['type'])
                nm = c.get('name')
                if not nm and f.record is not None and f.record.tag == 'ai' and f.name in ('destroy', 'destroy_range'):
                    # r15b: the empty trivial overloads leave their parameters unnamed; use the generic overloads' names
                    nm = {'destroy': ['p'], 'destroy_range': ['first', 'last']}[f.name][len([q for q in params if q[0] != 'self'])]
                nm = nm or ('anon%d' % len(params))
                if c.get('isParameterPack'):
                    raise Unsupported('parameter pack')
                params.append((self._cname_var(c, nm), t, c))
        f.params = params
        if f.kind in ('CXXConstructorDecl', 'CXXDestructorDecl'):
            f.ret = CType('void')
        else:
            rt, _ = parse_fn_type(qt)
            # prefer a desugared return type from the type dict if it is a simple function type
            f.ret = self._ret_type(n, rt)
        key = self._ir_name(f)
        f.noexcept = bool(self.nounwind.get(key, False)) if key else False
        f.noexcept_known = key is not None

    def _ir_name(self, f):
        """the function's symbol in the IR probe: constructors/destructors of base classes are emitted as the
        base-object variants (C2/D2) while the AST names the complete-object ones (C1/D1)"""
        m = f.mangled
        if not m:
            return None
        if m in self.nounwind:
            return m
        if f.kind in ('CXXConstructorDecl', 'CXXDestructorDecl'):
            a, b = ('C1', 'C2') if f.kind == 'CXXConstructorDecl' else ('D1', 'D2')
            for x, y in ((a, b), (b, a)):
                i = m.find(x)
                while i != -1:
                    cand = m[:i] + y + m[i + 2:]
                    if cand in self.nounwind:
                        return cand
                    i = m.find(x, i + 1)
        return None

    def _ret_type(self, n, rt):
        try:
            return self.tm.ctype(rt)
        except TypeErr:
            pass
        # fall back: find a ReturnStmt expression type
        def find_ret(x):
            if x.get('kind') == 'ReturnStmt':
                inn = x.get('inner', [])
                if inn and 'type' in inn[0]:
                    return inn[0]
            for c in x.get('inner', []):
                r = find_ret(c)
                if r is not None:
                    return r
            return None
        r = find_ret(n)
        if r is None:
            raise TypeErr('cannot determine return type %r' % rt)
        t = self.ct(r['type'])
        if r.get('valueCategory') in ('lvalue', 'xvalue') and ('&' in rt or 'decltype' in rt or 'auto' in rt):
            if rt.strip().endswith('&') or '&' in rt.split(')')[-1]:
                t = CType(t.base, t.ptrs + 1, t.const_base, True)
        return t

    def _cname_var(self, node, name):
        # keep source names; C keywords / clashes get a suffix
        if name in ('this', 'self', 'exc', 'restrict', 'register', 'auto', 'new', 'delete'):
            name = name + '_'
        self.var_names[node['id']] = name
        return name

    # ------------------------------------------------------------------ emission driver
    def emit_all(self, roots):
        """lower the functions reachable from roots (cnames); returns ordered list of Fn"""
        done = []
        seen = set()
        work = list(roots)
        while work:
            cn = work.pop()
            if cn in seen:
                continue
            seen.add(cn)
            f = self.by_cname.get(cn)
            if f is None:
                continue
            if f.text is None and f.error is None:
                try:
                    FnLower(self, f).run()
                except (Unsupported, TypeErr) as e:
                    f.error = str(e)
            done.append(f)
            for c in sorted(f.callees):
                if c not in seen:
                    work.append(c)
        return done

    def struct_defs(self):
        """C struct definitions for all mapped records, dependency-ordered"""
        out = []
        emitted = set()
        recs = {}
        for r in self.records.values():
            if r.tag and r.node.get('completeDefinition'):
                recs.setdefault(r.tag, r)
        def emit(r):
            if r.tag in emitted:
                return
            emitted.add(r.tag)
            lines = []
            members = []
            for b in r.bases:
                bt = self.tm.ctype(b)
                if bt.is_struct():
                    dep = recs.get(bt.base[len('struct '):])
                    if dep is not None:
                        emit(dep)
                members.append(bt.decl('base'))
            for fd in r.fields:
                nm = fd['name']
                tq = fd['type'].get('desugaredQualType') or fd['type']['qualType']
                if r.tag.startswith('inl') and nm == 'm_data':
                    members.append('Elem m_data[]'); continue       # r5: symbolic inline capacity -> flexible array
                if r.tag.startswith('stmp') and nm == 'm_data':
                    members.append('Elem m_data'); continue         # raw storage for one element
                ft = self.ct(fd['type'])
                if ft.tag:
                    continue
                if ft.is_struct():
                    dep = recs.get(ft.base[len('struct '):])
                    if dep is not None:
                        emit(dep)
                members.append(ft.decl(nm))
            if not members:
                members.append('char _empty')
            out.append('struct %s { %s; };' % (r.tag, '; '.join(members)))
        for tag in sorted(recs):
            try:
                emit(recs[tag])
            except TypeErr as e:
                out.append('/* struct %s not emitted: %s */' % (tag, e))
        return out

    def prototype(self, f):
        ps = [t.decl(n) for (n, t, _) in f.params if not t.tag]
        return '%s(%s)' % (f.ret.decl(f.cname), ', '.join(ps) if ps else 'void')


def src_lines(n, state):
    """(begin,end) source lines of a decl from the annotated ranges (astload.annotate_lines)"""
    r = n.get('range', {})
    b = r.get('begin', {}).get('_line'); e_ = r.get('end', {}).get('_line')
    if b is not None and e_ is not None:
        return (b, e_)
    return (None, None)


def src_lines_old(n, state):
    def lines(x):
        r = []
        if isinstance(x, dict):
            if 'line' in x:
                r.append(x['line'])
            for v in x.values():
                r.extend(lines(v))
        elif isinstance(x, list):
            for v in x:
                r.extend(lines(v))
        return r
    ls = lines({'loc': n.get('loc'), 'range': n.get('range')})
    body = lines(n.get('inner', []))
    al = ls + body
    if not al:
        return (None, None)
    return (min(al), max(al))


class Scope:
    def __init__(self, kind):
        self.kind = kind          # 'fn', 'block', 'loop', 'try'
        self.dtors = []           # list of C statements (strings) to run on exit, in declaration order
        self.handler = None       # for 'try': label to jump to on exception


class FnLower:
    """lowers one function body"""
    def __init__(self, em, f):
        self.em = em
        self.f = f
        self.out = []
        self.ind = 1
        self.tmp = 0
        self.lbl = 0
        self.scopes = []
        self.pre = []             # pending statements for the current full-expression
        self.saved_stack = []     # for rethrow: names of saved exc_kind variables
        self.fulltemps = []       # temporaries with destructors in the current full-expression
        self.loop_stack = []
        self.elem_out = None

    # -------------------------------------------------------------- helpers
    def w(self, s):
        self.out.append('  ' * self.ind + s)

    def newtmp(self):
        self.tmp += 1
        return '__t%d' % self.tmp

    def newlbl(self, base):
        self.lbl += 1
        return '__%s%d' % (base, self.lbl)

    def rule(self, r):
        self.f.rules[r] += 1

    def ct(self, t):
        return self.em.ct(t)

    def is_ref_type(self, t):
        """C++ reference type? (typedef'd reference types included: decided on the desugared type)"""
        q = (t.get('desugaredQualType') or t.get('qualType') or '').strip()
        if q.endswith('&'):
            return True
        try:
            return self.ct(t).is_ref
        except TypeErr:
            return False

    def flush(self):
        for s in self.pre:
            self.w(s)
        self.pre = []

    def handler_depth(self):
        """index of the innermost enclosing try scope, or -1 (function exit)"""
        for i in range(len(self.scopes) - 1, -1, -1):
            if self.scopes[i].kind == 'try':
                return i
        return -1

    def unwind_stmts(self, to_depth, exceptional):
        """destructor statements for scopes deeper than to_depth (exclusive), innermost first"""
        st = []
        for t in reversed(self.fulltemps):
            st.append(t)
        for i in range(len(self.scopes) - 1, to_depth, -1):
            for d in reversed(self.scopes[i].dtors):
                st.append(d)
        if exceptional and st:
            st = ['{ _Bool __se = exc; int __sk = exc_kind; exc = 0;'] + st + ['exc = __se; exc_kind = __sk; }']
        return st

    def exc_goto(self):
        """statement(s) transferring control to the innermost handler, running destructors on the way"""
        d = self.handler_depth()
        target = self.scopes[d].handler if d >= 0 else '__exc_exit'
        st = self.unwind_stmts(d, True)
        return ' '.join(st + ['goto %s;' % target])

    def check_exc(self):
        self.f.maythrow_calls += 1
        return 'if (exc) { %s }' % self.exc_goto()

    # -------------------------------------------------------------- entry
    def run(self):
        f = self.f
        if f.error:
            return
        n = f.node
        f.lines = src_lines(n, None)
        body = [c for c in n.get('inner', []) if c.get('kind') == 'CompoundStmt']
        if not body:
            raise Unsupported('no body')
        self.scopes.append(Scope('fn'))
        self.rule('r1')
        # constructor initialisers
        if f.kind == 'CXXConstructorDecl':
            for c in n.get('inner', []):
                if c.get('kind') == 'CXXCtorInitializer':
                    self.ctor_init(c)
        if f.kind == 'CXXConstructorDecl' and f.record.tag.startswith('stmp'):
            self.w('env_track_temp((Elem *)&self->m_data);')   # r9b: the temporary's cell is tracked
            self.rule('r9b')
        if f.kind == 'CXXConstructorDecl' and f.record.tag.startswith('htmp'):
            self.w('env_track_temp(self->m_data_ptr);')
            self.rule('r9b')
        if f.record is not None and f.record.tag == 'ai' and f.name in ('destroy', 'destroy_range') and not body[0].get('inner'):
            # r15b: the header's empty overloads for trivially destructible element types are its statement that destruction
            # is a no-op; in the ghost model they still end the elements' lifetimes
            ps = [p[0] for p in f.params if p[0] != 'self']
            self.w('%s(%s);' % ('env_elem_end_lifetime' if f.name == 'destroy' else 'env_elem_end_lifetime_range', ', '.join(ps)))
            self.rule('r15b')
        self.stmt(body[0], toplevel=True)
        if f.kind == 'CXXDestructorDecl':
            self.dtor_epilogue()
            if f.record.tag.startswith(('stmp', 'htmp')):
                self.w('env_untrack_temp();')      # r9b
                self.rule('r9b')
        hdr = []
        proto = self.em.prototype(f)
        text = []
        text.append('/* %s  small_vector.hpp:%s-%s  decl %s  %s */' % (
            f.name, f.lines[0], f.lines[1], f.id, (f.mangled or '')))
        text.append(proto)
        text.append('@@CONTRACT %s@@' % f.cname)
        text.append('{')
        if f.ret.c() != 'void':
            text.append('  %s;' % f.ret.decl('__retv'))
        text.extend(self.out)
        text.append('  goto __exit;')
        text.append('__exc_exit: ;')
        if f.noexcept:
            text.append('  NOEXCEPT_VIOLATION("%s");' % f.cname)
            self.rule('r8')
        text.append('  CANARY_%s(exc);' % f.cname)
        text.append('  return%s;' % (' __retv' if f.ret.c() != 'void' else ''))
        text.append('__exit: ;')
        text.append('  CANARY_%s(ret);' % f.cname)
        text.append('  return%s;' % (' __retv' if f.ret.c() != 'void' else ''))
        text.append('}')
        f.text = '\n'.join(text)

    def ctor_init(self, c):
        inner = c.get('inner', [])
        if 'anyInit' in c:
            fld = c['anyInit']
            nm = fld.get('name')
            ft = self.ct(fld['type'])
            if not inner:
                return
            e = inner[0]
            if ft.is_struct() and e.get('kind') == 'CXXConstructExpr':
                self.construct_into('&self->%s' % nm, e)
                self.flush()
            elif self.is_ref_type(fld['type']):
                self.rule('r3')
                v = self.addr(e)
                self.flush()
                self.w('self->%s = %s;' % (nm, v))
            else:
                v = self.rv(e)
                self.flush()
                self.w('self->%s = %s;' % (nm, v))
        elif 'baseInit' in c:
            bt = self.ct(c['baseInit'])
            if not inner:
                return
            e = inner[0]
            while e.get('kind') in ('ExprWithCleanups',):
                e = e['inner'][0]
            if e.get('kind') == 'CXXConstructExpr':
                # base-class constructor or delegating constructor
                if bt.base == 'struct ' + self.f.record.tag:
                    self.construct_into('self', e)          # delegating
                else:
                    self.construct_into('&self->base', e)
                self.flush()
            else:
                raise Unsupported('base initialiser %s' % e.get('kind'))
        elif 'delegatingInit' in c:
            e = inner[0]
            while e.get('kind') in ('ExprWithCleanups',):
                e = e['inner'][0]
            if e.get('kind') != 'CXXConstructExpr':
                raise Unsupported('delegating initialiser %s' % e.get('kind'))
            self.construct_into('self', e)
            self.flush()
        else:
            raise Unsupported('ctor initialiser %s' % sorted(k for k in c.keys()))

    def dtor_epilogue(self):
        # implicit destruction of bases/members with non-trivial destructors: svb's base ai is trivial; sv's base svb is not
        r = self.f.record
        for b in r.bases:
            bt = self.em.tm.ctype(b)
            d = self.em.by_cname.get(bt.base.replace('struct ', '') + '_dtor')
            if d is not None:
                self.f.callees.add(d.cname)
                self.w('%s(&self->base);' % d.cname)
                self.rule('r9')

    # -------------------------------------------------------------- statements
    def stmt(self, n, toplevel=False):
        k = n.get('kind')
        m = getattr(self, 'st_' + k, None)
        if m is None:
            # expression statement
            if k.endswith('Expr') or k.endswith('Operator') or k in ('ExprWithCleanups',):
                self.expr_stmt(n)
                return
            raise Unsupported('statement kind %s' % k)
        m(n) if not toplevel else m(n)

    def expr_stmt(self, n):
        v = self.ex(n, discard=True)
        self.flush()
        if v and not re.match(r'^\(?\*?__t\d+\)?$', v) and v != '((void)0)':
            self.w('%s;' % v)
        self.end_full()

    def end_full(self):
        for t in reversed(self.fulltemps):
            self.w(t)
        self.fulltemps = []

    def st_CompoundStmt(self, n):
        self.scopes.append(Scope('block'))
        self.w('{')
        self.ind += 1
        for c in n.get('inner', []):
            self.stmt(c)
        for d in reversed(self.scopes[-1].dtors):
            self.w(d)
        self.ind -= 1
        self.w('}')
        self.scopes.pop()

    def st_NullStmt(self, n):
        self.w(';')

    def st_DeclStmt(self, n):
        for c in n.get('inner', []):
            if c.get('kind') == 'VarDecl':
                self.vardecl(c)
            elif c.get('kind') in ('TypeAliasDecl', 'TypedefDecl', 'UsingDecl', 'StaticAssertDecl', 'UsingDirectiveDecl'):
                pass
            else:
                raise Unsupported('declaration %s' % c.get('kind'))

    def vardecl(self, c):
        t = self.ct(c['type'])
        name = self.em._cname_var(c, c['name'])
        if t.tag:
            return
        inner = [x for x in c.get('inner', []) if x.get('kind') not in ('AlignedAttr',)]
        is_ref = self.is_ref_type(c['type'])
        if is_ref:
            self.rule('r3')
            v = self.addr(inner[0])
            self.flush()
            self.w('%s = %s;' % (t.decl(name), v))
            self.end_full()
            return
        if not inner:
            self.w('%s;' % t.decl(name))
            return
        e = inner[0]
        if t.is_struct() or (t.base == 'Elem' and t.ptrs == 0):
            self.w('%s;' % t.decl(name))
            if t.is_struct() and t.base.startswith(('struct stmp', 'struct svb')):
                self.w('env_fresh_object(&%s);' % name)     # r9b: a new local object holds no live element
                self.rule('r9b')
            self.construct_into('&' + name, e)
            self.flush()
            self.end_full()
            self.register_dtor(t, name)
            return
        v = self.rv(e)
        self.flush()
        self.w('%s = %s;' % (t.decl(name), v))
        self.end_full()

    def register_dtor(self, t, name):
        if not t.is_struct():
            if t.base == 'Elem' and t.ptrs == 0:
                raise Unsupported('local element object')
            return
        tag = t.base[len('struct '):]
        d = self.em.by_cname.get(tag + '_dtor')
        if d is not None:
            self.f.callees.add(d.cname)
            self.scopes[-1].dtors.append('%s(&%s);' % (d.cname, name))
            self.rule('r9')
        elif tag.startswith(('svb', 'stmp', 'htmp', 'sv')) and not tag.startswith(('svit', 'svcit', 'svd')):
            raise Unsupported('destructor of %s not extracted' % tag)

    def st_IfStmt(self, n):
        inner = n.get('inner', [])
        if n.get('hasVar') or n.get('hasInit'):
            # if (T v = init) ...
            self.w('{')
            self.ind += 1
            ds = inner[0]
            if ds.get('kind') != 'DeclStmt':
                raise Unsupported('if with init')
            self.st_DeclStmt(ds)
            vd = ds['inner'][0]
            rest = inner[1:]
            # clang repeats the condition as an expression after the DeclStmt
            cond_node = rest[0]
            then = rest[1]
            els = rest[2] if len(rest) > 2 else None
            cv = self.rv(cond_node)
            self.flush()
            self._if(cv, then, els)
            self.ind -= 1
            self.w('}')
            return
        cond = inner[0]
        then = inner[1]
        els = inner[2] if len(inner) > 2 else None
        if n.get('isConstexpr'):
            self.rule('r14')
        cv = self.rv(cond)
        self.flush()
        self.end_full()
        self._if(cv, then, els)

    def _if(self, cv, then, els):
        self.w('if (%s)' % cv)
        self.block(then)
        if els is not None:
            self.w('else')
            self.block(els)

    def block(self, n):
        if n.get('kind') == 'CompoundStmt':
            self.st_CompoundStmt(n)
        else:
            self.scopes.append(Scope('block'))
            self.w('{')
            self.ind += 1
            self.stmt(n)
            self.ind -= 1
            self.w('}')
            self.scopes.pop()

    def st_ReturnStmt(self, n):
        inner = n.get('inner', [])
        if inner:
            e = inner[0]
            rt = self.f.ret
            if rt.c() == 'void':
                # return f(); with void f
                v = self.ex(e, discard=True)
                self.flush()
                if v and not v.startswith('__t'):
                    self.w('%s;' % v)
            elif rt.is_ref:
                v = self.addr(e)
                self.flush()
                self.w('__retv = %s;' % v)
            elif rt.is_struct():
                self.construct_into('&__retv', e)
                self.flush()
            else:
                v = self.rv(e)
                self.flush()
                self.w('__retv = %s;' % v)
            self.end_full()
        for s in self.unwind_stmts(0, False):
            self.w(s)
        self.w('goto __exit;')

    def st_ForStmt(self, n):
        inner = n.get('inner', [])
        # clang: [init, condvar, cond, inc, body] with {} placeholders
        if len(inner) != 5:
            raise Unsupported('for statement shape')
        init, condvar, cond, inc, body = inner
        if condvar:
            raise Unsupported('for with condition variable')
        self.w('{')
        self.ind += 1
        self.scopes.append(Scope('block'))
        if init:
            self.stmt(init)
        self.loop(cond, inc, body)
        self.scopes.pop()
        self.ind -= 1
        self.w('}')

    def st_WhileStmt(self, n):
        inner = n.get('inner', [])
        cond, body = inner[-2], inner[-1]
        self.loop(cond, None, body)

    def loop(self, cond, inc, body):
        k = self.f.loops
        self.f.loops += 1
        self.scopes.append(Scope('loop'))
        self.w('while (1)')
        self.w('@@LOOP %s %d@@' % (self.f.cname, k))
        self.w('{')
        self.ind += 1
        if cond:
            cv = self.rv(cond)
            self.flush()
            self.end_full()
            self.w('if (!(%s)) break;' % cv)
        self.block(body)
        if inc:
            self.expr_stmt(inc)
        self.ind -= 1
        self.w('}')
        self.scopes.pop()

    def st_BreakStmt(self, n):
        # destructors of scopes inside the loop
        for i in range(len(self.scopes) - 1, -1, -1):
            if self.scopes[i].kind == 'loop':
                break
        for s in self.unwind_stmts(i, False):
            self.w(s)
        self.w('break;')

    def st_CXXTryStmt(self, n):
        self.rule('r6')
        inner = n.get('inner', [])
        body = inner[0]
        catches = inner[1:]
        if len(catches) != 1:
            raise Unsupported('try with %d handlers' % len(catches))
        c = catches[0]
        cin = c.get('inner', [])
        cbody = [x for x in cin if x.get('kind') == 'CompoundStmt']
        if len(cbody) != 1 or any(x.get('kind') == 'VarDecl' for x in cin):
            raise Unsupported('catch is not catch(...)')
        hl = self.newlbl('catch')
        al = self.newlbl('after')
        sc = Scope('try'); sc.handler = hl
        self.scopes.append(sc)
        self.st_CompoundStmt(body)
        self.scopes.pop()
        self.w('goto %s;' % al)
        self.ind -= 1
        self.w('%s: ;' % hl)
        self.ind += 1
        sv = self.newtmp()
        self.w('{ int %s = exc_kind; exc = 0;' % sv)
        self.ind += 1
        self.saved_stack.append(sv)
        self.st_CompoundStmt(cbody[0])
        self.saved_stack.pop()
        self.ind -= 1
        self.w('}')
        self.ind -= 1
        self.w('%s: ;' % al)
        self.ind += 1

    # -------------------------------------------------------------- expressions
    def rv(self, n):
        """C expression for the value of n (prvalue or read of a glvalue)"""
        return self.ex(n)

    def addr(self, n):
        """C expression for the address of glvalue n (or of a materialised temporary)"""
        vc = n.get('valueCategory')
        if vc == 'prvalue' and n.get('kind') not in ('MaterializeTemporaryExpr',):
            # binding a reference to a prvalue: materialise
            t = self.ct(n['type'])
            tv = self.newtmp()
            if t.is_struct():
                self.pre.append('%s;' % t.decl(tv))
                self.construct_into('&' + tv, n)
            else:
                v = self.ex(n)
                self.pre.append('%s = %s;' % (t.decl(tv), v))
            return '&' + tv
        v = self.ex(n)
        return self.addr_of(v)

    @staticmethod
    def addr_of(v):
        v = v.strip()
        m = re.match(r'^\(\*(.*)\)$', v)
        if m and balanced(m.group(1)):
            return m.group(1)
        return '&(%s)' % v if not re.match(r'^\w+$', v) else '&' + v

    @staticmethod
    def deref(v):
        v = v.strip()
        if v.startswith('&') and re.match(r'^&\w+$', v):
            return v[1:]
        m = re.match(r'^&\((.*)\)$', v)
        if m and balanced(m.group(1)):
            return '(%s)' % m.group(1)
        return '(*%s)' % v

    def ex(self, n, discard=False):
        k = n.get('kind')
        m = getattr(self, 'ex_' + k, None)
        if m is None:
            raise Unsupported('expression kind %s' % k)
        return m(n, discard) if k in ('CallExpr', 'CXXMemberCallExpr', 'CXXOperatorCallExpr', 'ExprWithCleanups', 'ParenExpr', 'BinaryOperator', 'CXXStaticCastExpr', 'CStyleCastExpr', 'CXXFunctionalCastExpr', 'ImplicitCastExpr', 'ConditionalOperator') else m(n)

    # --- leaves
    def ex_IntegerLiteral(self, n):
        v = str(n['value'])
        t = self.ct(n['type']).c()
        suf = {'unsigned int': 'u', 'unsigned long': 'ul', 'long': 'l', 'unsigned long long': 'ull', 'long long': 'll'}.get(t, '')
        return v + suf

    def ex_CXXBoolLiteralExpr(self, n):
        return '1' if n['value'] else '0'

    def ex_CXXNullPtrLiteralExpr(self, n):
        return '((void *)0)'

    def ex_GNUNullExpr(self, n):
        return '((void *)0)'

    def ex_CharacterLiteral(self, n):
        return str(n['value'])

    def ex_CXXThisExpr(self, n):
        return 'self'

    def ex_SubstNonTypeTemplateParmExpr(self, n):
        self.rule('r5')
        inner = [c for c in n.get('inner', []) if c.get('kind') != 'NonTypeTemplateParmDecl']
        pd = [c for c in n.get('inner', []) if c.get('kind') == 'NonTypeTemplateParmDecl']
        pname = pd[0].get('name') if pd else None
        lit = inner[0]
        if lit.get('kind') == 'IntegerLiteral' and self.ct(n['type']).c() == 'unsigned int' and pname in (
                'InlineCapacity', 'I', 'LessEqualI', 'GreaterI', 'N', 'DifferentInlineCapacity',
                'InlineCapacityLHS', 'InlineCapacityRHS'):
            role = self.em.role(lit['value'])
            return 'CAP_' + (role or 'N')
        if lit.get('kind') == 'CXXBoolLiteralExpr':
            return self.ex(lit)
        raise Unsupported('template parameter %s used as value' % pname)

    def ex_ConstantExpr(self, n):
        if 'value' in n and self.ct(n['type']).c() in ('_Bool',):
            self.rule('r14')
            return '1' if str(n['value']) in ('true', '1') else '0'
        return self.ex(n['inner'][0])

    def ex_ParenExpr(self, n, discard=False):
        return '(%s)' % self.ex(n['inner'][0], discard) if not discard else self.ex(n['inner'][0], discard)

    def ex_DeclRefExpr(self, n):
        r = n['referencedDecl']
        rk = r['kind']
        if rk in ('VarDecl', 'ParmVarDecl'):
            name = self.em.var_names.get(r['id'])
            if name is None:
                # static member / global
                t = self.ct(r['type'])
                if t.tag:
                    return 'TAGVALUE'
                if r.get('name') == 'inline_capacity_v' and self.f.record is not None:
                    self.rule('r5')
                    return 'CAP_' + (self.em.role(self.f.record.args[1]) or 'N')
                raise Unsupported('reference to unknown variable %s' % r.get('name'))
            if self.is_ref_type(r['type']):
                return '(*%s)' % name
            return name
        if rk in FN_KINDS:
            raise Unsupported('function used as value: %s' % r.get('name'))
        if rk == 'EnumConstantDecl':
            raise Unsupported('enum constant')
        if rk == 'NonTypeTemplateParmDecl':
            raise Unsupported('unsubstituted template parameter')
        raise Unsupported('DeclRefExpr to %s' % rk)

    def ex_MemberExpr(self, n):
        fd = self.em.field_decls.get(n.get('referencedMemberDecl'))
        if fd is not None and self.is_ref_type(fd['type']):
            self.rule('r3')
            return '(*%s)' % self._member_expr(n)       # a reference member denotes its referee
        return self._member_expr(n)

    def _member_expr(self, n):
        base = n['inner'][0]
        name = n['name']
        if n.get('isArrow'):
            b = self.ex(base)
            if b == 'self':
                return 'self->%s' % name
            return '(%s)->%s' % (b, name)
        b = self.ex(base)
        m = re.match(r'^\(\*(.*)\)$', b)
        if m and balanced(m.group(1)):
            return '(%s)->%s' % (m.group(1), name)
        return '(%s).%s' % (b, name)

    def ex_UnaryExprOrTypeTraitExpr(self, n):
        if n.get('name') != 'sizeof':
            raise Unsupported('type trait %s' % n.get('name'))
        if 'argType' in n:
            t = self.ct(n['argType'])
            return 'sizeof(%s)' % t.c()
        raise Unsupported('sizeof expression')

    def ex_CXXScalarValueInitExpr(self, n):
        t = self.ct(n['type'])
        return '((%s)0)' % t.c()

    def ex_ImplicitValueInitExpr(self, n):
        t = self.ct(n['type'])
        return '((%s)0)' % t.c()

    def ex_CXXDefaultArgExpr(self, n):
        raise Unsupported('default argument outside a call')

    # --- casts
    def ex_ImplicitCastExpr(self, n, discard=False):
        return self.cast(n, discard)

    def ex_CXXStaticCastExpr(self, n, discard=False):
        return self.cast(n, discard)

    def ex_CStyleCastExpr(self, n, discard=False):
        return self.cast(n, discard)

    def ex_CXXConstCastExpr(self, n):
        return self.cast(n, False)

    def ex_CXXReinterpretCastExpr(self, n):
        return self.cast(n, False)

    def ex_CXXFunctionalCastExpr(self, n, discard=False):
        ck = n.get('castKind')
        if ck == 'ConstructorConversion':
            return self.ex(n['inner'][0])
        return self.cast(n, discard)

    def cast(self, n, discard):
        ck = n.get('castKind')
        sub = n['inner'][0]
        if ck in ('LValueToRValue', 'NoOp', 'FunctionToPointerDecay', 'ConstructorConversion', 'UserDefinedConversion'):
            return self.ex(sub, discard) if sub.get('kind') in ('CallExpr', 'CXXMemberCallExpr', 'CXXOperatorCallExpr', 'ParenExpr') else self.ex(sub)
        if ck == 'ToVoid':
            v = self.ex(sub, True) if sub.get('kind') in ('CallExpr', 'CXXMemberCallExpr', 'CXXOperatorCallExpr', 'ParenExpr', 'BinaryOperator') else self.ex(sub)
            return v
        if ck == 'ArrayToPointerDecay':
            v = self.ex(sub)
            return '(%s)' % v       # arrays decay in C as well
        if ck in ('IntegralCast', 'IntegralToBoolean', 'BooleanToSignedIntegral', 'PointerToBoolean'):
            self.rule('r4')
            t = self.ct(n['type'])
            v = self.ex(sub)
            if ck == 'PointerToBoolean':
                return '((%s) != 0)' % v
            return '((%s)(%s))' % (t.c(), v)
        if ck in ('BitCast', 'NullToPointer'):
            t = self.ct(n['type'])
            v = self.ex(sub)
            if ck == 'NullToPointer':
                return '((%s)0)' % t.c()
            self.rule('r12')
            return '((%s)(%s))' % (t.c(), v)
        if ck in ('UncheckedDerivedToBase', 'DerivedToBase'):
            self.rule('r2')
            path = n.get('path', [])
            steps = len(path) if path else 1
            v = self.ex(sub)
            suffix = '.base' * steps
            if sub.get('valueCategory') == 'prvalue' and self.ct(sub['type']).ptrs > 0 and self.ct(n['type']).ptrs > 0 and n.get('valueCategory') == 'prvalue':
                # pointer conversion
                if v == 'self':
                    return '(&self->base%s)' % ('.base' * (steps - 1))
                return '(&(%s)->base%s)' % (v, '.base' * (steps - 1))
            m = re.match(r'^\(\*(.*)\)$', v)
            if m and balanced(m.group(1)):
                return '(%s)->base%s' % (m.group(1), '.base' * (steps - 1))
            return '(%s)%s' % (v, suffix)
        if ck == 'BaseToDerived':
            self.rule('r2')
            t = self.ct(n['type'])
            v = self.ex(sub)
            if n.get('valueCategory') == 'prvalue':
                return '((%s)(%s))' % (t.c(), v)
            pt = CType(t.base, t.ptrs + 1, t.const_base)
            return '(*(%s)%s)' % (pt.c(), self.addr_of(v))
        raise Unsupported('cast kind %s' % ck)

    def ex_MaterializeTemporaryExpr(self, n):
        sub = n['inner'][0]
        t = self.ct(n['type'])
        if t.tag:
            return 'TAGVALUE'
        tv = self.newtmp()
        if t.base == 'Elem' and t.ptrs == 0:
            # a temporary element object (e.g. the result of the caller's generator): r9b
            self.rule('r9b')
            self.pre.append('%s;' % t.decl(tv))
            self.pre.append('env_fresh_object(&%s); env_track_temp(&%s);' % (tv, tv))
            self.construct_into('&' + tv, sub)
            self.fulltemps.append('env_elem_destroy(&%s); env_untrack_temp();' % tv)
        elif t.is_struct():
            self.pre.append('%s;' % t.decl(tv))
            self.construct_into('&' + tv, sub)
        else:
            v = self.ex(sub)
            self.pre.append('%s = %s;' % (t.decl(tv), v))
        return tv

    def ex_ExprWithCleanups(self, n, discard=False):
        return self.ex(n['inner'][0], discard) if n['inner'][0].get('kind') in ('CallExpr', 'CXXMemberCallExpr', 'CXXOperatorCallExpr', 'ParenExpr', 'BinaryOperator') else self.ex(n['inner'][0])

    def ex_CXXBindTemporaryExpr(self, n):
        # a temporary with a non-trivial destructor: only element temporaries are supported
        sub = n['inner'][0]
        t = self.ct(n['type'])
        if t.base == 'Elem' and t.ptrs == 0:
            raise Unsupported('element temporary outside materialisation')
        return self.ex(sub)

    # --- operators
    def ex_UnaryOperator(self, n):
        op = n['opcode']
        sub = n['inner'][0]
        v = self.ex(sub)
        if op == '*':
            return self.deref(v)
        if op == '&':
            return self.addr_of(v)
        if op in ('++', '--'):
            return '(%s%s)' % (v, op) if n.get('isPostfix') else '(%s%s)' % (op, v)
        if op in ('-', '!', '~', '+'):
            return '(%s%s)' % (op, v)
        raise Unsupported('unary operator %s' % op)

    def has_call(self, n):
        if n.get('kind') in ('CallExpr', 'CXXMemberCallExpr', 'CXXOperatorCallExpr', 'CXXConstructExpr', 'CXXNewExpr', 'CXXTemporaryObjectExpr'):
            return True
        return any(self.has_call(c) for c in n.get('inner', []) if isinstance(c, dict))

    def ex_BinaryOperator(self, n, discard=False):
        op = n['opcode']
        l, r = n['inner']
        if op in ('&&', '||') and self.has_call(r):
            tv = self.newtmp()
            lv = self.ex(l)
            self.pre.append('_Bool %s = (%s);' % (tv, lv))
            self.pre.append('if (%s%s) {' % ('' if op == '&&' else '!', tv))
            rv = self.ex(r)
            self.pre.append('%s = (%s);' % (tv, rv))
            self.pre.append('}')
            return tv
        if op == ',':
            lv = self.ex(l, True)
            if lv and not lv.startswith('__t') and lv != 'TAGVALUE':
                self.pre.append('%s;' % lv)
            return self.ex(r, discard)
        lv = self.ex(l)
        rv = self.ex(r)
        if op == '=':
            lt = self.ct(l['type'])
            if lt.is_struct():
                return '%s = %s' % (lv, rv)
            return '%s = %s' % (lv, rv) if discard else '(%s = %s)' % (lv, rv)
        if op in ('==', '!=', '<', '>', '<=', '>=') and self.ct(l['type']).ptrs > 0 and self.ct(r['type']).ptrs > 0:
            if op in ('==', '!='):
                return '(%s %s %s)' % (lv, op, rv)
            return 'PTR_REL(%s, %s, %s)' % (lv, {'<': 'LT', '>': 'GT', '<=': 'LE', '>=': 'GE'}[op], rv)
        if op == '-' and self.ct(l['type']).ptrs > 0 and self.ct(r['type']).ptrs > 0:
            return 'PTR_DIFF(%s, %s)' % (lv, rv)
        return '(%s %s %s)' % (lv, op, rv)

    def ex_CompoundAssignOperator(self, n):
        op = n['opcode']
        l, r = n['inner']
        lv = self.ex(l)
        rv = self.ex(r)
        return '(%s %s %s)' % (lv, op, rv)

    def ex_ConditionalOperator(self, n, discard=False):
        c, a, b = n['inner']
        if self.has_call(a) or self.has_call(b):
            t = self.ct(n['type'])
            tv = self.newtmp()
            cv = self.ex(c)
            glv = n.get('valueCategory') in ('lvalue', 'xvalue')
            if glv:
                pt = CType(t.base, t.ptrs + 1, t.const_base)
                self.pre.append('%s;' % pt.decl(tv))
            else:
                self.pre.append('%s;' % t.decl(tv))
            self.pre.append('if (%s) {' % cv)
            av = self.addr(a) if glv else self.ex(a)
            self.pre.append('%s = %s;' % (tv, av))
            self.pre.append('} else {')
            bv = self.addr(b) if glv else self.ex(b)
            self.pre.append('%s = %s;' % (tv, bv))
            self.pre.append('}')
            return '(*%s)' % tv if glv else tv
        return '(%s ? %s : %s)' % (self.ex(c), self.ex(a), self.ex(b))

    def ex_ArraySubscriptExpr(self, n):
        a, i = n['inner']
        return '(%s)[%s]' % (self.ex(a), self.ex(i))

    # --- throw
    def ex_CXXThrowExpr(self, n):
        self.rule('r6')
        inner = n.get('inner', [])
        if not inner:
            if not self.saved_stack:
                raise Unsupported('rethrow outside a handler')
            self.pre.append('exc = 1; exc_kind = %s;' % self.saved_stack[-1])
        else:
            tq = inner[0]['type']['qualType']
            kind = None
            for kname, kc in EXC_KINDS.items():
                if kname in tq:
                    kind = kc
            if kind is None:
                raise Unsupported('throw of %s' % tq)
            self.pre.append('exc = 1; exc_kind = %s;' % kind)
        self.pre.append(self.exc_goto())
        return '((void)0)'

    # --- calls
    def callee_info(self, n):
        """returns (kind, ...) for the callee of a call-like node"""
        k = n['kind']
        inner = n['inner']
        if k == 'CXXMemberCallExpr':
            me = inner[0]
            while me.get('kind') in ('ParenExpr', 'ImplicitCastExpr'):
                me = me['inner'][0]
            if me.get('kind') != 'MemberExpr':
                raise Unsupported('member call through %s' % me.get('kind'))
            fid = me.get('referencedMemberDecl')
            return ('member', fid, me, inner[1:])
        callee = inner[0]
        while callee.get('kind') in ('ImplicitCastExpr', 'ParenExpr'):
            callee = callee['inner'][0]
        if callee.get('kind') != 'DeclRefExpr':
            raise Unsupported('call through %s' % callee.get('kind'))
        rd = callee['referencedDecl']
        return ('free', rd['id'], rd, inner[1:])

    def lower_args(self, params, args, callee_node):
        """lower call arguments against parameter list [(name, CType, node)] (self excluded)"""
        out = []
        for i, a in enumerate(args):
            if i < len(params):
                pn, pt, pnode = params[i]
            else:
                raise Unsupported('more arguments than parameters')
            if pt.tag:
                continue
            if a.get('kind') == 'CXXDefaultArgExpr':
                init = [x for x in (pnode.get('inner', []) if pnode else [])]
                if not init:
                    raise Unsupported('default argument without initialiser')
                a = init[0]
            if pt.is_ref:
                self.rule('r3')
                out.append(self.addr(a))
            elif pt.is_struct():
                tv = self.newtmp()
                self.pre.append('%s;' % pt.decl(tv))
                self.construct_into('&' + tv, a)
                out.append(tv)
            else:
                out.append(self.ex(a))
        return out

    def emit_call(self, cname, args, rett, ret_is_ref, maythrow, discard, glvalue_result=False):
        if getattr(self, 'elem_out', None) is not None and rett is not None and rett.base == 'Elem' and rett.ptrs == 0 and cname.startswith('env_'):
            cname = cname + '_out'
            self.need_env(cname)
            args = list(args) + [self.elem_out]
            self.elem_out = None
            rett = None
        call = '%s(%s)' % (cname, ', '.join(args))
        if rett is None or rett.c() == 'void':
            self.pre.append('%s;' % call)
            if maythrow:
                self.pre.append(self.check_exc())
            return ''
        tv = self.newtmp()
        self.pre.append('%s = %s;' % (rett.decl(tv), call))
        if maythrow:
            self.pre.append(self.check_exc())
        if ret_is_ref:
            return '(*%s)' % tv
        return tv

    def call_extracted(self, f, self_arg, args, discard):
        if f.error and f.cname is None:
            raise Unsupported('callee %s: %s' % (f.name, f.error))
        if f.error:
            raise Unsupported('callee %s not lowered: %s' % (f.cname, f.error))
        self.f.callees.add(f.cname)
        params = [p for p in f.params if p[0] != 'self']
        a = self.lower_args(params, args, f.node)
        if self_arg is not None:
            a = [self_arg] + a
        maythrow = not f.noexcept
        return self.emit_call(f.cname, a, f.ret, f.ret.is_ref, maythrow, discard)

    def ex_CallExpr(self, n, discard=False):
        kind, fid, rd, args = self.callee_info(n)
        f = self.em.fns.get(fid)
        if f is not None and has_body(f.node) and f.cname and (f.record is None or f.record.tag):
            return self.call_extracted(f, None, args, discard)
        return self.boundary_free(n, rd, args, discard)

    def ex_CXXMemberCallExpr(self, n, discard=False):
        kind, fid, me, args = self.callee_info(n)
        base = me['inner'][0]
        f = self.em.fns.get(fid)
        if me.get('isArrow'):
            bself = self.ex(base)
            if bself == 'self' or re.match(r'^\w+$', bself) or bself.startswith('(&'):
                pass
        else:
            if base.get('valueCategory') == 'prvalue':
                bself = self.addr(base)
            else:
                bself = self.addr_of(self.ex(base))
        if f is not None and has_body(f.node) and f.cname and f.record is not None and f.record.tag:
            return self.call_extracted(f, bself, args, discard)
        return self.boundary_member(n, me, bself, args, discard)

    def ex_CXXOperatorCallExpr(self, n, discard=False):
        kind, fid, rd, args = self.callee_info(n)
        f = self.em.fns.get(fid)
        if f is not None and has_body(f.node) and f.cname:
            if f.record is not None and not f.is_static:
                # member operator: first argument is the object
                obj = args[0]
                bself = self.addr(obj) if obj.get('valueCategory') == 'prvalue' else self.addr_of(self.ex(obj))
                return self.call_extracted(f, bself, args[1:], discard)
            return self.call_extracted(f, None, args, discard)
        return self.boundary_operator(n, rd, args, discard)

    # --- construction
    def construct_into(self, dest, e):
        """initialise the object at C pointer expression dest from expression node e"""
        k = e.get('kind')
        while k in ('ExprWithCleanups', 'CXXBindTemporaryExpr', 'MaterializeTemporaryExpr', 'CXXFunctionalCastExpr', 'ConstantExpr') or \
                (k == 'ImplicitCastExpr' and e.get('castKind') in ('NoOp', 'ConstructorConversion')):
            e = e['inner'][0]
            k = e.get('kind')
        if k in ('CXXConstructExpr', 'CXXTemporaryObjectExpr'):
            self.construct_expr(dest, e)
            return
        if k == 'InitListExpr':
            t = self.ct(e['type'])
            if not e.get('inner'):
                self.pre.append('*%s = (%s){0};' % (dest, t.c()) if not dest.startswith('&') else '%s = (%s){0};' % (dest[1:], t.c()))
                return
            raise Unsupported('initialiser list with elements')
        # any other prvalue of class type (a call returning by value)
        t = self.ct(e['type'])
        if t.base == 'Elem' and t.ptrs == 0:
            # an element returned by value is constructed by the callee in the destination (out-parameter)
            self.elem_out = dest
            v = self.ex(e)
            if self.elem_out is not None:
                raise Unsupported('element prvalue from %s' % e.get('kind'))
            return
        v = self.ex(e)
        self.pre.append('%s = %s;' % (self.deref(dest), v))

    def construct_expr(self, dest, e):
        t = self.ct(e['type'])
        args = e.get('inner', [])
        ctor_t = e.get('ctorType', {}).get('qualType', '')
        if t.base == 'Elem' and t.ptrs == 0:
            self.elem_construct(dest, e, args, ctor_t)
            return
        # find the constructor by matching the record's ctors
        tag = t.base[len('struct '):] if t.is_struct() else None
        if tag is None:
            if t.ptrs >= 1 and len(args) == 1:
                # a class modelled by a pointer (std::move_iterator<T*>): copy/move/converting construction is a copy
                self.rule('r13')
                v = self.ex(args[0])
                self.pre.append('%s = %s;' % (self.deref(dest), v))
                return
            raise Unsupported('construction of %s' % t.c())
        # trivial copy/move of plain structs
        _, ptypes = parse_fn_type(ctor_t)
        if len(args) == 1 and len(ptypes) == 1:
            pt = self.em.tm.ctype(ptypes[0])
            # allocator_interface's COPY constructor is user-provided (select_on_container_copy_construction): never a plain copy
            user_copy = tag == 'ai' and not ptypes[0].strip().endswith('&&')
            if pt.is_ref and pt.base == t.base and pt.ptrs == 1 and self.is_trivial_copy(tag) and not user_copy:
                self.rule('r13')
                v = self.ex(args[0])
                self.pre.append('%s = %s;' % (self.deref(dest), v))
                return
        if len(args) == 0 and self.is_trivial_default(tag):
            return
        cands = []
        for f in set(self.em.fns.values()):
            if f.kind == 'CXXConstructorDecl' and f.record is not None and f.record.tag == tag and f.cname and has_body(f.node):
                fp = [p for p in f.params if p[0] != 'self']
                cpp = [p[2]['type']['qualType'] for p in fp]
                if self.same_param_types(cpp, ptypes):
                    cands.append(f)
        if len(cands) == 1:
            f = cands[0]
            if f.error:
                raise Unsupported('constructor %s not lowered: %s' % (f.cname, f.error))
            self.f.callees.add(f.cname)
            a = self.lower_args([p for p in f.params if p[0] != 'self'], args, f.node)
            self.emit_call(f.cname, [dest] + a, None, False, not f.noexcept, True)
            return
        if len(cands) > 1:
            raise Unsupported('ambiguous constructor of %s for %s' % (tag, ctor_t))
        self.boundary_ctor(dest, t, tag, args, ptypes)

    def same_param_types(self, a, b):
        if len(a) != len(b):
            return False
        for x, y in zip(a, b):
            try:
                cx = self.em.tm.ctype(x); cy = self.em.tm.ctype(y)
            except TypeErr:
                return False
            if (cx.c(), cx.is_ref, cx.tag) != (cy.c(), cy.is_ref, cy.tag):
                return False
            if cx.is_ref and (x.strip().endswith('&&') != y.strip().endswith('&&')):
                return False
        return True

    def is_trivial_copy(self, tag):
        return tag in ('svit', 'svcit', 'Alloc', 'InputIt', 'FwdIt', 'Gen', 'Pred', 'IList', 'ainl', 'ai', 'svdb') or tag.startswith('rev_')

    def is_trivial_default(self, tag):
        return tag in ('svit', 'svcit', 'svdb', 'InputIt', 'FwdIt') or tag.startswith(('svd', 'inl', 'rev_'))

    def ex_CXXConstructExpr(self, n):
        t = self.ct(n['type'])
        if t.tag:
            return 'TAGVALUE'
        tv = self.newtmp()
        self.pre.append('%s;' % t.decl(tv))
        self.construct_expr('&' + tv, n)
        return tv

    def ex_CXXTemporaryObjectExpr(self, n):
        return self.ex_CXXConstructExpr(n)

    def ex_InitListExpr(self, n):
        t = self.ct(n['type'])
        if t.tag:
            return 'TAGVALUE'
        raise Unsupported('init list of %s' % t.c())

    def ex_CXXNewExpr(self, n):
        # placement new of one element: ::new (vp) value_ty (args...)
        self.rule('r15')
        inner = n['inner']
        ce = [c for c in inner if c.get('kind') == 'CXXConstructExpr']
        place = [c for c in inner if c.get('kind') != 'CXXConstructExpr']
        if len(ce) != 1 or len(place) != 1:
            raise Unsupported('new expression shape')
        pv = self.ex(place[0])
        e = ce[0]
        self.elem_construct('((Elem *)%s)' % pv, e, e.get('inner', []), e.get('ctorType', {}).get('qualType', ''))
        return '((Elem *)%s)' % pv

    def elem_construct(self, dest, e, args, ctor_t):
        _, ptypes = parse_fn_type(ctor_t)
        mt = self.elem_ctor_maythrow(ctor_t)
        if len(ptypes) == 0:
            fn = 'env_elem_construct_default'; a = []
        elif len(ptypes) == 1:
            p = ptypes[0].strip()
            pt = self.em.tm.ctype(p)
            if pt.base == 'Elem' and pt.is_ref and p.endswith('&&'):
                fn = 'env_elem_construct_move'; a = [self.addr(args[0])]
            elif pt.base == 'Elem' and pt.is_ref:
                fn = 'env_elem_construct_copy'; a = [self.addr(args[0])]
            elif pt.base == 'int' and pt.ptrs <= 1:
                fn = 'env_elem_construct_int'; a = [self.ex(args[0])]
            else:
                raise Unsupported('element constructor from %s' % p)
        else:
            raise Unsupported('element constructor with %d arguments' % len(ptypes))
        self.need_env(fn)
        self.pre.append('%s(%s);' % (fn, ', '.join([dest] + a)))
        if mt:
            self.pre.append(self.check_exc())

    def elem_ctor_maythrow(self, ctor_t):
        return not re.search(r'noexcept(\(1\)|\(true\))?\s*$', ctor_t.strip()) or bool(re.search(r'noexcept\((0|false)\)\s*$', ctor_t.strip()))

    # --- boundary (environment) operations: r15 / section 3.5
    def need_env(self, fn):
        self.f.boundary.add(fn)
        if self.em.env_decls and fn not in self.em.env_decls:
            self.em.missing_boundary[fn] += 1
            raise Unsupported('boundary operation %s has no environment model' % fn)

    def fn_type_of(self, rd):
        return rd.get('type', {}).get('qualType', '')

    def is_nothrow_type(self, fnt):
        s = fnt.strip()
        if re.search(r'noexcept\s*(->.*)?$', s) or re.search(r'noexcept\((1|true)\)\s*(->.*)?$', s):
            return True
        return False

    def boundary_free(self, n, rd, args, discard):
        name = rd.get('name')
        fnt = self.fn_type_of(rd)
        if name == 'is_constant_evaluated':
            self.rule('r10')
            return 'CONSTEVAL'
        if name in ('forward', 'move') and len(args) == 1:
            self.rule('r3')
            return self.ex(args[0])
        if name == 'addressof':
            self.rule('r12')
            return self.addr_of(self.ex(args[0]))
        if name in ('launder', 'make_move_iterator', '__niter_base', 'to_address') and len(args) == 1:
            self.rule('r12' if name != 'make_move_iterator' else 'r13')
            return self.ex(args[0])
        if name in ('declval',):
            raise Unsupported('declval evaluated')
        if name in ('max', 'min') and len(args) == 0:
            # std::numeric_limits<T>::max ()
            ret_, _ = parse_fn_type(fnt)
            self.rule('r4')
            return 'NUMERIC_%s_%s' % (name.upper(), self.em.tm.ctype(ret_).abbr())
        if name == 'construct' and len(args) >= 2 and 'alloc' in fnt.split(')')[0]:
            # std::allocator_traits<A>::construct (a, p, args...) for an allocator without a construct member == ::new (p) T (args...)
            _, pt_ = parse_fn_type(fnt) if 'decltype' not in fnt.split('(')[0] else (None, None)
            dest = self.ex(args[1])
            ptypes_ = [a_['type'].get('desugaredQualType') or a_['type']['qualType'] for a_ in args[2:]]
            ptypes_ = [(t_ + (' &&' if a_.get('valueCategory') == 'xvalue' else ' &' if a_.get('valueCategory') == 'lvalue' else '')) for t_, a_ in zip(ptypes_, args[2:])]
            self.elem_construct(dest, n, args[2:], 'void (%s)' % ', '.join(ptypes_))
            return dest
        if name == 'construct_at':
            # std::construct_at (p, args...) == ::new (p) T (args...)
            _, pt_ = parse_fn_type(fnt)
            dest = self.ex(args[0])
            ctor_t = 'void (%s)%s' % (', '.join(pt_[1:]), ' noexcept' if re.search(r'noexcept\(noexcept', fnt) is None and self.is_nothrow_type(fnt) else '')
            self.elem_construct(dest, n, args[1:], ctor_t)
            return dest
        ret, ptypes = parse_fn_type(fnt)
        pcts = []
        for p in ptypes:
            pcts.append(self.em.tm.ctype(p))
        rett = self.em.tm.ctype(ret)
        # arguments
        a = []
        abbr = []
        for i, arg in enumerate(args):
            if i >= len(pcts):
                raise Unsupported('variadic boundary call %s' % name)
            pt = pcts[i]
            if pt.tag:
                continue
            if arg.get('kind') == 'CXXDefaultArgExpr':
                raise Unsupported('default argument of boundary function %s' % name)
            if pt.is_ref:
                a.append(self.addr(arg))
            elif pt.is_struct():
                tv = self.newtmp()
                self.pre.append('%s;' % pt.decl(tv))
                self.construct_into('&' + tv, arg)
                a.append(tv)
            else:
                a.append(self.ex(arg))
            abbr.append(pt.abbr())
        fn = 'env_%s__%s' % (name, '_'.join(abbr) if abbr else 'v')
        self.need_env(fn)
        self.rule('r15')
        mt = not self.is_nothrow_type(fnt)
        if rd.get('kind') == 'CXXMethodDecl' or True:
            pass
        return self.emit_call(fn, a, rett, rett.is_ref, mt, discard)

    def boundary_member(self, n, me, bself, args, discard):
        name = me.get('name')
        bt = self.ct(me['inner'][0]['type'])
        rett = self.ct(n['type'])
        glv = n.get('valueCategory') in ('lvalue', 'xvalue')
        if name.startswith('~'):
            # explicit destructor call on an element
            pt = bt if bt.ptrs else CType(bt.base, 1)
            if bt.base == 'Elem':
                self.need_env('env_elem_destroy')
                self.rule('r15')
                self.pre.append('env_elem_destroy(%s);' % bself)
                return ''
            raise Unsupported('explicit destructor of %s' % bt.c())
        if name == 'operator=' and bt.base == 'struct Alloc' and len(args) == 1:
            # allocator copy/move assignment: the allocator's state is its identity
            self.rule('r15')
            v = self.ex(args[0])
            self.pre.append('%s = %s;' % (self.deref(bself), v))
            return self.deref(bself)
        if name == 'base' and not args and (bt.base == 'Elem' or (bt.ptrs and bt.base == 'Elem')):
            # std::move_iterator<T*>::base()
            self.rule('r13')
            return self.deref(bself)
        owner = CType(bt.base, 0).abbr()
        a = [bself]
        abbr = []
        for arg in args:
            at = self.ct(arg['type'])
            if at.tag:
                continue
            if at.is_struct():
                tv = self.newtmp()
                self.pre.append('%s;' % at.decl(tv))
                self.construct_into('&' + tv, arg)
                a.append(tv)
            elif arg.get('valueCategory') in ('lvalue', 'xvalue') and at.base == 'Elem' and at.ptrs == 0:
                a.append(self.addr(arg)); at = CType(at.base, 1, at.const_base)
            else:
                a.append(self.ex(arg))
            abbr.append(at.abbr())
        fn = 'env_%s_%s__%s' % (owner, re.sub(r'\W+', '_', name), '_'.join(abbr) if abbr else 'v')
        self.need_env(fn)
        self.rule('r15')
        if glv:
            rett = CType(rett.base, rett.ptrs + 1, rett.const_base, True)
        return self.emit_call(fn, a, rett, glv, True, discard)

    def boundary_operator(self, n, rd, args, discard):
        name = rd.get('name')
        fnt = self.fn_type_of(rd)
        ats = [self.ct(a['type']) for a in args]
        # builtin-like operators on pointer-modelled iterators (std::move_iterator<T*>)
        if all(t.ptrs >= 1 or not t.is_struct() and t.base != 'Elem' for t in ats) and ats and ats[0].ptrs >= 1 and ats[0].base == 'Elem':
            self.rule('r13')
            vs = [self.ex(a) for a in args]
            if name in ('operator==', 'operator!='):
                return '(%s %s %s)' % (vs[0], name[8:], vs[1])
            if name == 'operator++' and len(vs) == 1:
                return '(++%s)' % vs[0]
            if name == 'operator++' and len(vs) == 2:
                return '(%s++)' % vs[0]
            if name == 'operator*':
                return '(*%s)' % vs[0]
            if name == 'operator-' and len(vs) == 2:
                return 'PTR_DIFF(%s, %s)' % (vs[0], vs[1])
            if name == 'operator+' and len(vs) == 2:
                return '(%s + %s)' % (vs[0], vs[1])
            if name in ('operator+=', 'operator-='):
                return '(%s %s %s)' % (vs[0], name[8:], vs[1])
            if name == 'operator[]':
                return '(%s)[%s]' % (vs[0], vs[1])
            raise Unsupported('operator %s on pointer-modelled iterator' % name)
        # element assignment
        ret, ptypes = parse_fn_type(fnt)
        is_member = rd.get('kind') == 'CXXMethodDecl'
        a = []
        abbr = []
        pi = 0
        for i, arg in enumerate(args):
            at = ats[i]
            if is_member and i == 0:
                a.append(self.addr(arg) if arg.get('valueCategory') == 'prvalue' else self.addr_of(self.ex(arg)))
                abbr.append(CType(at.base, 1, at.const_base).abbr())
                continue
            p = ptypes[pi] if pi < len(ptypes) else None
            pi += 1
            pt = self.em.tm.ctype(p) if p else at
            if pt.tag:
                continue
            if pt.is_ref:
                a.append(self.addr(arg))
                ab = pt.abbr()
                if p.strip().endswith('&&'):
                    ab = 'rr' + ab[1:]
                abbr.append(ab)
            elif pt.is_struct():
                tv = self.newtmp()
                self.pre.append('%s;' % pt.decl(tv))
                self.construct_into('&' + tv, arg)
                a.append(tv); abbr.append(pt.abbr())
            else:
                a.append(self.ex(arg)); abbr.append(pt.abbr())
        opn = OPNAMES.get(name, re.sub(r'\W+', '_', name))
        fn = 'env_%s__%s' % (opn, '_'.join(abbr))
        rett = self.em.tm.ctype(ret)
        if not (self.elem_out is not None and rett.base == 'Elem' and rett.ptrs == 0):
            self.need_env(fn)
        self.rule('r15')
        mt = not self.is_nothrow_type(fnt)
        return self.emit_call(fn, a, rett, rett.is_ref, mt, discard)

    def boundary_ctor(self, dest, t, tag, args, ptypes):
        abbr = []
        a = [dest]
        for i, arg in enumerate(args):
            pt = self.em.tm.ctype(ptypes[i])
            if pt.tag:
                continue
            if pt.is_ref:
                a.append(self.addr(arg))
            elif pt.is_struct():
                tv = self.newtmp()
                self.pre.append('%s;' % pt.decl(tv))
                self.construct_into('&' + tv, arg)
                a.append(tv)
            else:
                a.append(self.ex(arg))
            abbr.append(pt.abbr())
        fn = 'env_%s_ctor__%s' % (tag, '_'.join(abbr) if abbr else 'v')
        self.need_env(fn)
        self.rule('r15')
        self.emit_call(fn, a, None, False, True, True)


def balanced(s):
    d = 0
    for ch in s:
        if ch == '(':
            d += 1
        elif ch == ')':
            d -= 1
            if d < 0:
                return False
    return d == 0
