"""Load a clang -ast-dump=json (-ast-dump-filter) stream: several JSON objects concatenated."""
import json, subprocess, sys

def load_stream(text):
    dec = json.JSONDecoder()
    i = 0; objs = []
    n = len(text)
    while i < n:
        while i < n and text[i].isspace():
            i += 1
        if i >= n:
            break
        if text.startswith('Dumping', i):
            i = text.index('\n', i) + 1
            continue
        o, j = dec.raw_decode(text, i)
        objs.append(o); i = j
    return objs

def dump(tu, flags, filt='gch::'):
    cmd = ['clang++', '-fsyntax-only', '-Xclang', '-ast-dump=json', '-Xclang', '-ast-dump-filter=' + filt] + flags + [tu]
    r = subprocess.run(cmd, capture_output=True, text=True)
    if r.returncode != 0:
        raise RuntimeError('clang failed: ' + r.stderr[:4000])
    return load_stream(r.stdout)


def annotate_lines(objs):
    """clang prints 'line'/'file' only when they change from the previously printed location.
    Re-create absolute lines by walking the JSON in document order; stores '_line'/'_file' on
    every location dict."""
    state = {'line': None, 'file': None}
    def loc(d):
        # a location dict: may nest spellingLoc/expansionLoc
        if 'spellingLoc' in d or 'expansionLoc' in d:
            for k in ('spellingLoc', 'expansionLoc'):
                if k in d:
                    loc(d[k])
            d['_line'] = d.get('expansionLoc', d.get('spellingLoc', {})).get('_line')
            d['_file'] = d.get('expansionLoc', d.get('spellingLoc', {})).get('_file')
            return
        if 'file' in d:
            state['file'] = d['file']
        if 'line' in d:
            state['line'] = d['line']
        if 'offset' in d:
            d['_line'] = state['line']; d['_file'] = state['file']
    def walk(n):
        if isinstance(n, dict):
            for k, v in n.items():
                if k == 'loc' and isinstance(v, dict):
                    loc(v)
                elif k == 'range' and isinstance(v, dict):
                    if 'begin' in v: loc(v['begin'])
                    if 'end' in v: loc(v['end'])
                elif isinstance(v, (dict, list)):
                    walk(v)
        elif isinstance(n, list):
            for x in n:
                walk(x)
    for o in objs:
        walk(o)
