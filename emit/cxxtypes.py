"""C++ type-string handling for the emitter: alias resolution, parsing, mapping to C types.

The clang JSON AST gives types as strings.  We resolve class-scope aliases with a table built
from the TypeAliasDecl/TypedefDecl nodes of the instantiated classes, parse the result with a
small recursive-descent parser and map the named types to the C model's types.
"""
import re


class TypeErr(Exception):
    pass


BUILTIN = {
    'void': 'void', 'bool': '_Bool', 'char': 'char', 'signed char': 'signed char',
    'unsigned char': 'unsigned char', 'short': 'short', 'unsigned short': 'unsigned short',
    'int': 'int', 'unsigned int': 'unsigned int', 'unsigned': 'unsigned int', 'long': 'long',
    'unsigned long': 'unsigned long', 'long long': 'long long',
    'unsigned long long': 'unsigned long long',
    'std::size_t': 'unsigned long', 'size_t': 'unsigned long', 'std::ptrdiff_t': 'long',
    'ptrdiff_t': 'long', 'std::nullptr_t': 'void *', 'nullptr_t': 'void *',
    '__int128': '__int128', 'unsigned __int128': 'unsigned __int128',
    'std::uint8_t': 'unsigned char', 'std::uint16_t': 'unsigned short',
    'std::uint32_t': 'unsigned int', 'std::uint64_t': 'unsigned long',
    'std::uint_fast8_t': 'unsigned char', 'std::uint_fast16_t': 'unsigned long',
    'std::uint_fast32_t': 'unsigned long', 'std::uint_fast64_t': 'unsigned long',
    'uint_fast8_t': 'unsigned char', 'uint_fast16_t': 'unsigned long',
    'uint_fast32_t': 'unsigned long', 'uint_fast64_t': 'unsigned long',
    'uint8_t': 'unsigned char', 'uint16_t': 'unsigned short', 'uint32_t': 'unsigned int',
    'uint64_t': 'unsigned long',
}

ABBR = {
    'void': 'v', '_Bool': 'b', 'char': 'c', 'unsigned char': 'uc', 'signed char': 'sc',
    'short': 's', 'unsigned short': 'us', 'int': 'i', 'unsigned int': 'u', 'long': 'l',
    'unsigned long': 'ul', 'long long': 'll', 'unsigned long long': 'ull', 'Elem': 'E',
    'struct Alloc': 'A', 'struct InputIt': 'II', 'struct FwdIt': 'FI', 'struct Gen': 'G', 'struct Pred': 'P',
    'struct IList': 'IL',
}


def split_top(s, sep=','):
    """split at top-level separators (not inside <>, (), [])"""
    out = []; depth = 0; cur = ''
    for ch in s:
        if ch in '<([':
            depth += 1
        elif ch in '>)]':
            depth -= 1
        if ch == sep and depth == 0:
            out.append(cur.strip()); cur = ''
        else:
            cur += ch
    if cur.strip():
        out.append(cur.strip())
    return out


class CType:
    """a C type: base name + pointer/const structure, or the TAG marker (vanishing empty tag types)"""
    def __init__(self, base, ptrs=0, const_base=False, is_ref=False, array=None, tag=False, cxx=None):
        self.base = base          # e.g. 'Elem', 'struct svb', 'unsigned long'
        self.ptrs = ptrs          # number of '*' after resolving references to pointers
        self.const_base = const_base
        self.is_ref = is_ref      # outermost was a C++ reference (now counted in ptrs)
        self.array = array        # None or size string
        self.tag = tag
        self.cxx = cxx

    def c(self):
        if self.tag:
            return 'TAG'
        s = ('const ' if self.const_base else '') + self.base
        if self.ptrs:
            s += ' ' + '*' * self.ptrs
        return s

    def decl(self, name):
        if self.array is not None:
            return '%s %s[%s]' % (CType(self.base, self.ptrs, self.const_base).c(), name, self.array)
        s = self.c()
        return s + ('' if s.endswith('*') else ' ') + name

    def deref(self):
        assert self.ptrs > 0
        return CType(self.base, self.ptrs - 1, self.const_base)

    def abbr(self):
        if self.tag:
            return 'T'
        b = ABBR.get(self.base)
        if b is None:
            b = self.base.replace('struct ', '')
        return 'p' * self.ptrs + ('c' if self.const_base and self.ptrs else '') + b

    def is_struct(self):
        return self.ptrs == 0 and self.base.startswith('struct ')

    def is_scalar(self):
        return not self.tag and (self.ptrs > 0 or not self.base.startswith('struct ')) and self.base != 'Elem' or self.ptrs > 0


class TypeMap:
    def __init__(self, class_map, alias_table, tag_names, elem_names, warn=None):
        # class_map: function(name, args:list[str]) -> C base name or None
        self.class_map = class_map
        self.alias = alias_table          # full 'Class<..>::alias' -> C++ type string
        self.tag_names = tag_names
        self.elem_names = elem_names
        self.cache = {}

    # ---- alias resolution --------------------------------------------------------------
    def resolve(self, s):
        s = s.replace('typename ', '').replace('struct ', '').replace('class ', '').replace('__restrict', '')
        s = re.sub(r'\benum ', '', s)
        for _ in range(20):
            changed = False
            # longest keys first
            for k in self._alias_keys():
                if k in s:
                    # make sure the match is not a prefix of a longer identifier
                    idx = s.find(k)
                    while idx != -1:
                        end = idx + len(k)
                        if end == len(s) or not (s[end].isalnum() or s[end] == '_'):
                            rep = self.alias[k]
                            s = s[:idx] + rep + s[end:]
                            changed = True
                            idx = s.find(k, idx + len(rep))
                        else:
                            idx = s.find(k, end)
            if not changed:
                break
        return s

    def _alias_keys(self):
        if not hasattr(self, '_ak') or len(self._ak) != len(self.alias):
            self._ak = sorted(self.alias.keys(), key=len, reverse=True)
        return self._ak

    # ---- parsing -----------------------------------------------------------------------
    def ctype(self, s):
        if s in self.cache:
            return self.cache[s]
        r = self._ctype(self.resolve(s), s)
        self.cache[s] = r
        return r

    def _ctype(self, s, orig):
        s = s.strip()
        # references
        is_ref = False
        if s.endswith('&&'):
            s = s[:-2].strip(); is_ref = True
        elif s.endswith('&'):
            s = s[:-1].strip(); is_ref = True
        # array suffix
        array = None
        m = re.match(r'^(.*)\[(\d*)\]$', s)
        if m and not s.endswith('>'):
            s = m.group(1).strip(); array = m.group(2)
        # trailing pointers / consts
        ptrs = 0
        while True:
            if s.endswith('*'):
                s = s[:-1].strip(); ptrs += 1
            elif s.endswith(' const') and ptrs > 0:
                s = s[:-6].strip()      # const pointer: drop (top-level constness is irrelevant)
            elif re.search(r'\*\s*const$', s):
                s = re.sub(r'\s*const$', '', s)
            elif s.endswith(' volatile'):
                s = s[:-9].strip()
            else:
                break
        const_base = False
        volatile = False
        changed = True
        while changed:
            changed = False
            if s.startswith('const '):
                s = s[6:].strip(); const_base = True; changed = True
            if s.startswith('volatile '):
                s = s[9:].strip(); volatile = True; changed = True
            if s.endswith(' const'):
                s = s[:-6].strip(); const_base = True; changed = True
        if ptrs == 0 and not is_ref:
            const_base = False          # top-level const of a value is irrelevant in the C model
        base, tag = self._base(s, orig)
        if tag:
            return CType('TAG', tag=True, cxx=orig)
        if isinstance(base, CType) and base.tag:
            return CType('TAG', tag=True, cxx=orig)
        if isinstance(base, CType):    # e.g. move_iterator<T*> -> T*
            return CType(base.base, base.ptrs + ptrs + (1 if is_ref else 0),
                         base.const_base if base.ptrs else (const_base or base.const_base), is_ref, array, cxx=orig)
        return CType(base, ptrs + (1 if is_ref else 0), const_base, is_ref, array, cxx=orig)

    def _base(self, s, orig):
        if s in BUILTIN:
            return BUILTIN[s], False
        if s in self.elem_names:
            return 'Elem', False
        if s in self.tag_names:
            return None, True
        if s.startswith('union (unnamed union at ') and 'small_vector.hpp' in s:
            return 'Elem', False          # inline_storage's raw cell type (r5)
        if s.startswith('decltype('):
            raise TypeErr('decltype type %r' % s)
        # template-id possibly followed by ::member
        name, args, rest = self._split_template(s)
        if rest:
            # nested name: Class<...>::inner
            r = self.class_map(name, args, rest, self)
        else:
            r = self.class_map(name, args, None, self)
        if r == 'TAG':
            return None, True
        if r is None:
            raise TypeErr('unmapped C++ type %r (from %r)' % (s, orig))
        return r, False

    @staticmethod
    def _split_template(s):
        i = s.find('<')
        if i == -1:
            # maybe Outer::Inner without templates
            return s, [], None
        depth = 0
        for j in range(i, len(s)):
            if s[j] == '<':
                depth += 1
            elif s[j] == '>':
                depth -= 1
                if depth == 0:
                    break
        name = s[:i]
        args = split_top(s[i + 1:j])
        rest = s[j + 1:]
        if rest.startswith('::'):
            rest = rest[2:]
        elif rest.strip() == '':
            rest = None
        else:
            raise TypeErr('cannot parse type %r' % s)
        return name, args, rest


def parse_fn_type(s):
    """'R (P1, P2) const noexcept' -> (R, [P...]); handles 'auto (...) -> R' too."""
    s = s.strip()
    i = s.find('(')
    # find the parameter list: first '(' at depth 0 of <>
    depth = 0
    for i, ch in enumerate(s):
        if ch == '<':
            depth += 1
        elif ch == '>':
            depth -= 1
        elif ch == '(' and depth == 0:
            break
    else:
        raise TypeErr('not a function type: %r' % s)
    if s[i:i + 3] == '(*)' or s[i:i + 3] == '(&)':
        j0 = i + 3
        i = s.index('(', j0)
    d = 0
    for j in range(i, len(s)):
        if s[j] in '(<[':
            d += 1
        elif s[j] in ')>]':
            d -= 1
            if d == 0:
                break
    ret = s[:i].strip()
    params = split_top(s[i + 1:j])
    if params == ['void']:
        params = []
    tail = s[j + 1:]
    m = re.search(r'->\s*(.*)$', tail)
    if ret == 'auto' and m:
        ret = m.group(1).strip()
    return ret, params
