#!/usr/bin/env python3
"""Run the extraction for one configuration: clang AST dump + IR nounwind probe -> Emitter."""
import os, re, subprocess, sys, json, time, hashlib
sys.path.insert(0, os.path.dirname(os.path.abspath(__file__)))
import astload
from emit import Emitter, has_body

REPO_INC = os.environ.get('VERIF_REPO', '/repo') + '/source/include'
INST = os.path.join(os.path.dirname(os.path.abspath(__file__)), '..', 'inst')

def clang_flags(cfg):
    fl = ['-std=' + cfg.get('std', 'c++20'), '-I', REPO_INC, '-I', INST, '-Wno-everything']
    for d in cfg.get('defines', []):
        fl.append('-D' + d)
    fl.append('-DVT_N=%s' % cfg['N'])
    if cfg.get('M') is not None:
        fl.append('-DVT_M=%s' % cfg['M'])
    return fl

def nounwind_probe(tu, flags):
    """compiler-evaluated exception specifications: nounwind attribute of the IR function (rule r7)"""
    r = subprocess.run(['clang++', '-S', '-emit-llvm', '-O0', '-Xclang', '-disable-O0-optnone', '-o', '-'] + flags + [tu],
                       capture_output=True, text=True)
    if r.returncode != 0:
        raise RuntimeError('clang IR probe failed: ' + r.stderr[:3000])
    ll = r.stdout
    attrs = {}
    for m in re.finditer(r'^attributes #(\d+) = \{([^}]*)\}', ll, re.M):
        attrs[m.group(1)] = 'nounwind' in m.group(2).split()
    fn = {}
    for m in re.finditer(r'^(define|declare)[^@\n]*@("[^"]+"|[^\s(]+)\((.*)$', ll, re.M):
        name = m.group(2).strip('"'); rest = m.group(3)
        # attribute group references after the closing parenthesis of the parameter list
        d = 1; j = 0
        for j, ch in enumerate(rest):
            if ch == '(':
                d += 1
            elif ch == ')':
                d -= 1
                if d == 0:
                    break
        tail = rest[j + 1:]
        tail = tail.split(' personality ')[0]
        g = re.findall(r'#(\d+)', tail)
        nu = any(attrs.get(x, False) for x in g) or bool(re.search(r'\bnounwind\b', tail))
        fn[name] = nu
    return fn

def noexcept_probe(cfg, exprs):
    """declared exception specifications as the compiler evaluates them: noexcept (<call expression>) for each named expression
    over the configuration's types (E, A, V, VM), read back from the constants of the IR.  Independent of the bodies."""
    if not exprs:
        return {}
    tu = os.path.join(INST, cfg.get('tu', 'cfg_main.cpp'))
    src = '#include "%s"\n#include <utility>\n' % tu
    names = sorted(exprs)
    for i, n in enumerate(names):
        src += 'extern "C" { extern const bool verif_nx_%d; const bool verif_nx_%d = noexcept (%s); }\n' % (i, i, exprs[n])
    r = subprocess.run(['clang++', '-x', 'c++', '-S', '-emit-llvm', '-O0', '-o', '-'] + clang_flags(cfg) + ['-'], input=src, capture_output=True, text=True)
    if r.returncode != 0:
        raise RuntimeError('clang noexcept probe failed: ' + r.stderr[:3000])
    out = {}
    for i, n in enumerate(names):
        m = re.search(r'^@verif_nx_%d = [^\n]*constant i8 (\d)' % i, r.stdout, re.M)
        if not m:
            raise RuntimeError('noexcept probe: constant verif_nx_%d (%s) not found in the IR' % (i, n))
        out[n] = m.group(1) == '1'
    return out

def env_decls(path):
    s = open(path).read()
    return set(re.findall(r'\b(env_\w+)\s*\(', s))

def run(cfg, tu=None):
    tu = tu or os.path.join(INST, cfg.get('tu', 'cfg_main.cpp'))
    flags = clang_flags(cfg)
    t = time.time()
    objs = astload.dump(tu, flags)
    astload.annotate_lines(objs)
    nounwind = nounwind_probe(tu, flags)
    envh = os.path.join(os.path.dirname(os.path.abspath(__file__)), '..', 'env', 'env.h')
    c = dict(cfg)
    c['env_decls'] = env_decls(envh) if os.path.exists(envh) else set()
    em = Emitter(objs, nounwind, c)
    em.extract_s = time.time() - t
    return em

if __name__ == '__main__':
    cfg = {'N': 3, 'std': 'c++20', 'defines': ['NDEBUG']}
    em = run(cfg)
    names = sorted(n for n, f in em.by_cname.items() if has_body(f.node))
    sel = [n for n in names if n.startswith(tuple(sys.argv[1:]) or ('svb_', 'ai_', 'sv_', 'svit_', 'svcit_', 'stmp_', 'htmp_', 'nm_', 'svd', 'inl', 'ainl'))]
    fl = em.emit_all(sel)
    ok = [f for f in fl if f.text]; bad = [f for f in fl if f.error]
    print('extract %.1fs  functions: %d lowered, %d not' % (em.extract_s, len(ok), len(bad)))
    import collections
    reasons = collections.Counter(f.error for f in bad)
    for r, c in reasons.most_common(60):
        print('%4d  %s' % (c, r))
    if os.environ.get('SHOW'):
        for f in fl:
            if f.cname.startswith(os.environ['SHOW']):
                print(f.text or ('ERROR ' + f.error))
