"""Parser for /verif/contracts/*.spec: per-function contracts, loop contracts, harnesses.

  fn <cname> [when <C preprocessor condition>]
    requires [tags] <C expression ...>            (continuation lines are indented deeper)
    ensures  [tags] <expr>
    assigns  <targets>
    frees    <targets>
    loop <k> invariant [tags] <expr>
    loop <k> assigns <targets>
    loop <k> decreases <expr>
    replace  <cname> ...                           callees replaced by their contracts in this proof
    flags    <extra cbmc flags>
    level    L1|L2|L3
    bound    <K>                                   BOUNDED STAND-IN: the function's own loops are unwound (K iterations, unwinding assertions on); never counted as proved
    noexcept_doc <C expression>                    documented noexcept condition; compared with the compiler-evaluated specification (C18)
    harness
      <C statements>
    end
  end
"""
import re, os, glob

class Clause:
    def __init__(self, kind, tags, text, src):
        self.kind = kind; self.tags = tags; self.text = text; self.src = src

class FnSpec:
    def __init__(self, name, when, src):
        self.name = name; self.when = when; self.src = src
        self.requires = []; self.ensures = []; self.assigns = []; self.frees = []
        self.loops = {}      # k -> {'invariant': [Clause], 'assigns': [str], 'decreases': str}
        self.replace = []; self.flags = []; self.level = 'L2'; self.harness = None; self.timeout = None; self.solver = None
        self.cases = []      # [(name, C condition over the harness variables)]
        self.notes = []
        self.bound = None          # bounded stand-in: loops of this function without a loop contract are unwound bound+1 times with unwinding assertions
        self.noexcept_expr = None  # C++ call expression over E, A, V, VM whose noexcept-ness the compiler evaluates (declared specification)
        self.noexcept_doc = None   # documented noexcept condition (C expression over FACT_* / CFG_* macros)

TAGRE = re.compile(r'^\[([A-Za-z0-9_, ]+)\]\s*')

TEMPLATES = {}

def split_args(s):
    """split template arguments at top-level commas (parentheses and brackets nest; < and > are operators here)"""
    out = []; depth = 0; cur = ''
    for ch in s:
        if ch in '([':
            depth += 1
        elif ch in ')]':
            depth -= 1
        if ch == ',' and depth == 0:
            out.append(cur.strip()); cur = ''
        else:
            cur += ch
    if cur.strip():
        out.append(cur.strip())
    return out

def expand_templates(lines, path):
    """template NAME(a, b) ... end  /  use NAME(x, y): textual clause templates"""
    out = []
    i = 0
    while i < len(lines):
        m = re.match(r'^template\s+(\w+)\s*\(([^)]*)\)\s*$', lines[i].strip())
        if m:
            body = []; i += 1
            while lines[i].strip() != 'endtemplate':
                body.append(lines[i]); i += 1
            TEMPLATES[m.group(1)] = ([a.strip() for a in m.group(2).split(',') if a.strip()], body)
            out.append(''); out.extend([''] * (len(body) + 1))
            i += 1; continue
        m = re.match(r'^(\s*)use\s+(\w+)\s*\((.*)\)\s*$', lines[i])
        if m:
            if m.group(2) not in TEMPLATES:
                raise SyntaxError('%s:%d: unknown template %s' % (path, i + 1, m.group(2)))
            params, body = TEMPLATES[m.group(2)]
            args = split_args(m.group(3))
            if len(args) != len(params):
                raise SyntaxError('%s:%d: template %s takes %d arguments' % (path, i + 1, m.group(2), len(params)))
            sub = []
            base = min([len(b) - len(b.lstrip()) for b in body if b.strip()] or [0])
            for b in body:
                t = b[base:] if b.strip() else ''
                for pn, a in zip(params, args):
                    t = re.sub(r'\b%s\b' % re.escape(pn), lambda _m, a=a: a, t)
                sub.append(m.group(1) + t.rstrip())
            out.extend(expand_templates(sub, path))      # templates may use templates
            i += 1; continue
        out.append(lines[i]); i += 1
    return out

def parse_file(path):
    specs = []
    cur = None
    lines = expand_templates(open(path).read().split('\n'), path)
    i = 0
    def src(i): return '%s:%d' % (os.path.basename(path), i + 1)
    while i < len(lines):
        raw = lines[i]
        line = raw.strip()
        if not line or line.startswith('#'):
            i += 1; continue
        if cur is None:
            m = re.match(r'^fn\s+(\w+)(\s+when\s+(.*))?$', line)
            if not m:
                raise SyntaxError('%s: expected fn, got %r' % (src(i), line))
            cur = FnSpec(m.group(1), m.group(3), src(i))
            i += 1; continue
        if line == 'end':
            specs.append(cur); cur = None; i += 1; continue
        if line == 'harness':
            i += 1; body = []
            while lines[i].strip() != 'end':
                body.append(lines[i]); i += 1
            cur.harness = '\n'.join(body); i += 1; continue
        # gather continuation lines (indented more than the clause's first line)
        ind = len(raw) - len(raw.lstrip())
        text = line; j = i + 1
        while j < len(lines) and lines[j].strip() and (len(lines[j]) - len(lines[j].lstrip())) > ind and not lines[j].strip().startswith('#'):
            text += ' ' + lines[j].strip(); j += 1
        s0 = src(i)
        i = j
        kw, _, rest = text.partition(' ')
        rest = rest.strip()
        def tagged(r):
            m = TAGRE.match(r)
            if m:
                return [t.strip() for t in m.group(1).split(',')], r[m.end():]
            return [], r
        if kw in ('requires', 'ensures'):
            tags, body = tagged(rest)
            getattr(cur, kw).append(Clause(kw, tags, body, s0))
        elif kw == 'assigns':
            cur.assigns.append(rest)
        elif kw == 'frees':
            cur.frees.append(rest)
        elif kw == 'loop':
            m = re.match(r'^(\d+)\s+(invariant|assigns|decreases)\s+(.*)$', rest)
            if not m:
                raise SyntaxError('%s: bad loop clause' % s0)
            k = int(m.group(1)); lk = cur.loops.setdefault(k, {'invariant': [], 'assigns': [], 'decreases': None})
            if m.group(2) == 'invariant':
                tags, body = tagged(m.group(3)); lk['invariant'].append(Clause('invariant', tags, body, s0))
            elif m.group(2) == 'assigns':
                lk['assigns'].append(m.group(3))
            else:
                lk['decreases'] = m.group(3)
        elif kw == 'replace':
            cur.replace.extend(rest.split())
        elif kw == 'flags':
            cur.flags.extend(rest.split())
        elif kw == 'level':
            cur.level = rest
        elif kw == 'timeout':
            cur.timeout = int(rest)
        elif kw == 'solver':
            cur.solver = rest.strip()
        elif kw == 'case':
            nm, _, cond = rest.partition(':')
            cur.cases.append((nm.strip(), cond.strip()))
        elif kw == 'note':
            cur.notes.append(rest)
        elif kw == 'bound':
            cur.bound = int(rest)
        elif kw == 'noexcept_doc':
            cur.noexcept_doc = rest.strip()
        elif kw == 'noexcept_expr':
            cur.noexcept_expr = rest.strip()
        else:
            raise SyntaxError('%s: unknown clause %r' % (s0, kw))
    if cur is not None:
        raise SyntaxError('%s: unterminated fn %s' % (path, cur.name))
    return specs

def load_all(d):
    out = {}
    for p in sorted(glob.glob(os.path.join(d, '*.spec'))):
        for s in parse_file(p):
            out.setdefault(s.name, []).append(s)
    return out
