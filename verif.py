#!/usr/bin/env python3
"""Proof driver: extract -> splice contracts -> goto-cc -> goto-instrument --dfcc -> cbmc, per function.

  verif.py prove <cfg> <fn> [-v] [--trace]      one proof, prints the verdict
  verif.py list <cfg>                           functions under contract in a configuration
  verif.py check <Cxx> [--tier quick|thorough]  decide a property (MANIFEST entry point)
  verif.py all [--tier quick]                   run every proof once (development)
"""
import os, sys, json, re, subprocess, time, shutil, tempfile, hashlib, argparse, concurrent.futures, resource

ROOT = os.path.dirname(os.path.abspath(__file__))
sys.path.insert(0, os.path.join(ROOT, 'emit'))
import gen, spec as specmod
from configs import CONFIGS, cfg_defines

CBMC_CHECKS = ['--pointer-check', '--bounds-check', '--pointer-overflow-check', '--unsigned-overflow-check',
               '--signed-overflow-check', '--conversion-check', '--div-by-zero-check', '--pointer-primitive-check', '--object-bits', '10']
TIMEOUT = int(os.environ.get('VERIF_TIMEOUT', '300'))
DEFAULT_SOLVER = os.environ.get('VERIF_SOLVER', 'minisat')
MEM_KB = 12 * 1024 * 1024
CASEPOOL = concurrent.futures.ThreadPoolExecutor(max_workers=8)
SOLVERS = concurrent.futures.ThreadPoolExecutor(max_workers=int(os.environ.get('VERIF_JOBS', '14')))
TAG_RE = re.compile(r'\[((?:C\d\d|pre|frame)(?:\s*,\s*(?:C\d\d|pre|frame))*)\]')


def workdir():
    base = os.environ.get('VERIF_TMP') or tempfile.gettempdir()
    d = tempfile.mkdtemp(prefix='svverif_', dir=base)
    return d


def _limits():
    resource.setrlimit(resource.RLIMIT_AS, (MEM_KB * 1024, MEM_KB * 1024))


def run(cmd, timeout, cwd=None):
    t = time.time()
    try:
        r = subprocess.run(cmd, capture_output=True, text=True, timeout=timeout, cwd=cwd, preexec_fn=_limits)
        return r.returncode, r.stdout, r.stderr, time.time() - t
    except subprocess.TimeoutExpired as e:
        return -9, (e.stdout or b'').decode() if isinstance(e.stdout, bytes) else (e.stdout or ''), 'timeout', time.time() - t


class Built:
    """a built model of one configuration in a work directory"""
    def __init__(self, cfg, wd):
        self.cfg = cfg; self.wd = os.path.join(wd, cfg['name']); os.makedirs(self.wd, exist_ok=True)
        self.model = gen.Model(cfg)
        self.text = self.model.build()
        self.path = os.path.join(self.wd, 'model_%s.c' % cfg['name'])
        open(self.path, 'w').write(self.text)
        self.errors = {f.cname: f.error for f in self.model.fns if f.error}
        self.report = self.model.report()

    def closure(self, fn):
        """functions reachable from fn (for 'not lowered' detection and replace lists)"""
        seen = set(); work = [fn]
        while work:
            x = work.pop()
            if x in seen:
                continue
            seen.add(x)
            r = self.report.get(x)
            if r:
                work.extend(r['callees'])
        return seen


def classify(prop_name, desc, line, built, target):
    """tags (property ids) of one CBMC property"""
    m = TAG_RE.search(desc)
    if m:
        return [t.strip() for t in m.group(1).split(',')]
    cl = built.model.clauses.get(line)
    if cl is not None and ('ensures clause' in desc or 'requires clause' in desc or 'invariant' in desc.lower()
                           or 'decreases' in desc or 'assignable' in desc):
        return list(cl['tags']) or ['C01']
    kind = prop_name.split('.')[-2] if '.' in prop_name else ''
    if kind in ('overflow', 'conversion', 'division-by-zero', 'undefined-shift'):
        return ['C12']
    if kind in ('pointer_dereference', 'array_bounds', 'pointer_arithmetic', 'pointer', 'pointer_primitives', 'precondition_instance', 'free', 'bounds'):
        return ['C03', 'C13']
    if kind == 'assigns' or 'assignable' in desc:
        return ['C02']
    if 'noexcept_violation' in desc:
        return ['C18']
    return ['C02']


def prove(built, fn, verbose=False, trace=False, keep=False, case=None, extra_defs=(), build_only=False):
    """run one proof; returns a result dict"""
    cfg = built.cfg
    if '@' in fn:
        fn, case = fn.split('@', 1)
    if case is None and built.model.specs.get(fn) is not None and built.model.specs[fn].cases:
        return prove_cases(built, fn, verbose, trace, keep)
    sp = built.model.specs.get(fn)
    res = {'fn': fn + ('@' + case if case else ''), 'cfg': cfg['name'], 'status': None, 'obligations': 0, 'discharged': 0, 'failed': [],
           'canaries': {}, 'time_s': 0.0, 'backend': 'cbmc 6.11.0 / MiniSat 2.2.1', 'reason': None, 'tags': {}}
    if sp is None or sp.harness is None:
        res['status'] = 'undecided'; res['reason'] = 'no contract/harness for %s in configuration %s' % (fn, cfg['name'])
        return res
    info = built.report.get(fn)
    if info is None or not info['lowered']:
        res['status'] = 'undecided'; res['reason'] = 'function not extracted: %s' % (built.errors.get(fn) or 'not found in this instantiation')
        return res
    clo = built.closure(fn)
    bad = [c for c in clo if c in built.errors]
    if bad:
        res['status'] = 'undecided'; res['reason'] = 'callee not lowered: %s: %s' % (bad[0], built.errors[bad[0]])
        return res
    res['lines'] = info['lines']; res['text_hash'] = info['text_hash']
    # replaced callees: those named by the spec that are really called (a stale name crashes goto-instrument)
    replaced = [g for g in sp.replace if g in clo and g != fn and g in built.model.specs]
    missing = [g for g in sp.replace if g not in built.model.specs]
    if missing:
        res['status'] = 'undecided'; res['reason'] = 'replace target without contract: %s' % missing
        return res
    res['replaced'] = replaced
    # loops: every loop in the inlined closure (not behind a replaced call) must carry a contract
    inl = set(); work = [fn]
    while work:
        x = work.pop()
        if x in inl or (x in replaced):
            continue
        inl.add(x)
        work.extend(built.report[x]['callees'] if x in built.report else [])
    loops_needed = 0
    unwound = []
    for x in inl:
        nl = built.report[x]['loops'] if x in built.report else 0
        if nl:
            xs = built.model.specs.get(x)
            have = len([k for k in (xs.loops if xs else {}) if xs.loops[k]['invariant']])
            if sp.bound is not None:
                loops_needed += have        # bounded stand-in: loops without a contract (the function's own and inlined ones) are unwound
                if have < nl:
                    unwound.append((x, nl))
                continue
            if have < nl:
                res['status'] = 'undecided'; res['reason'] = 'loop without contract in %s (inlined into %s)' % (x, fn)
                return res
            loops_needed += nl
    res['loops'] = loops_needed
    wd = os.path.join(built.wd, 'p_' + fn + ('@' + case if case else '') + ('_replay' if build_only else ''))
    os.makedirs(wd, exist_ok=True)
    t0 = time.time()
    defs = cfg_defines(cfg) + ['-DTARGET_%s' % fn]
    if case:
        defs.append('-DCASE_%s' % case)
    defs += list(extra_defs)
    if sp.bound is not None:
        defs.append('-DBOUND=%d' % sp.bound)
        res['bounded'] = sp.bound
    for d in getattr(sp, 'defines', []):
        defs.append('-D' + d)
    gb = os.path.join(wd, 'a.gb'); gb2 = os.path.join(wd, 'b.gb')
    cmd = ['goto-cc', '-Werror'] + defs + ['-I', os.path.join(ROOT, 'env'), '-I', os.path.join(ROOT, 'contracts'),
                                 '--function', 'harness_' + fn, built.path, os.path.join(ROOT, 'env', 'env.c'), '-o', gb]
    rc, so, se, dt = run(cmd, 120)
    if rc != 0:
        res['status'] = 'undecided'; res['reason'] = 'goto-cc failed: ' + (se or so)[-1500:]
        return res
    cmd = ['goto-instrument', '--dfcc', 'harness_' + fn, '--enforce-contract', fn]
    for g in replaced:
        cmd += ['--replace-call-with-contract', g]
    if loops_needed:
        cmd += ['--apply-loop-contracts']
    cmd += [gb, gb2]
    rc, so, se, dt = run(cmd, 300)
    if rc != 0:
        res['status'] = 'undecided'; res['reason'] = 'goto-instrument failed: ' + (se or so)[-1500:]
        return res
    flags = [f for f in CBMC_CHECKS if f not in cfg.get('drop_checks', [])] + list(sp.flags)
    if sp.bound is not None:
        # bounded stand-in: the function's own loops (DFCC renames the checked function) are unwound bound+1 times, with unwinding assertions
        us = []
        for x, nl in unwound:
            for k in range(nl):
                us.append('%s.%d:%d' % (x, k, sp.bound + 1))
                if x == fn:
                    us.append('%s_wrapped_for_contract_checking.%d:%d' % (x, k, sp.bound + 1))
        if us:
            flags += ['--unwindset', ','.join(us)]
        flags += ['--unwinding-assertions']
    if build_only:
        return {'gb2': gb2, 'flags': [f for f in flags if ('--no' + f[1:]) not in sp.flags], 'wd': wd}
    flags = [f for f in flags if ('--no' + f[1:]) not in sp.flags]      # a '--no-<check>' of the spec removes the check and is passed on (CBMC 6 enables it by default)
    res['checker_cmd'] = 'goto-cc --function harness_%s | goto-instrument --dfcc harness_%s --enforce-contract %s %s%s| cbmc %s (postconditions solved one per solver instance, the remaining obligations together)' % (
        fn, fn, fn, ''.join('--replace-call-with-contract %s ' % g for g in replaced), '--apply-loop-contracts ' if loops_needed else '', ' '.join(flags))
    # property list, then partition: every postcondition in its own solver instance (measured: solving them together is
    # several times slower than the sum of the single runs), everything else in one instance
    rc, so, se, dt = run(['cbmc', gb2, '--show-properties', '--json-ui'] + flags, 120)
    try:
        props = []
        for item in json.loads(so):
            if 'properties' in item:
                props = [p_['name'] for p_ in item['properties']]
    except Exception:
        props = []
    if not props:
        res['status'] = 'undecided'; res['reason'] = 'cannot list properties: ' + (se or so)[-500:]
        return res
    heavy = [p_ for p_ in props if '.postcondition.' in p_]
    rest = [p_ for p_ in props if '.postcondition.' not in p_]
    groups = [[h] for h in heavy]
    if rest:
        nchunk = 4 if (sp.timeout or case) else 1      # heavy proofs: the automatic checks in four solver instances
        for k in range(nchunk):
            ch = rest[k::nchunk]
            if ch:
                groups.append(ch)
    tmo = max(TIMEOUT, sp.timeout or 0)
    def solve(group):
        args = []
        for g in group:
            args += ['--property', g]
        use_cadical = (sp.solver or DEFAULT_SOLVER) == 'cadical'
        first = ['--sat-solver', 'cadical'] if use_cadical else []
        second = [] if use_cadical else ['--sat-solver', 'cadical']
        r = run(['cbmc', gb2, '--json-ui'] + first + flags + args, tmo)
        if r[0] == -9:
            r2 = run(['cbmc', gb2, '--json-ui'] + second + flags + args, tmo)
            if r2[0] != -9:
                res.setdefault('cadical_groups', 0); res['cadical_groups'] += 1
                return (r2[0], r2[1], r2[2], r[3] + r2[3])
        return r
    outs = list(SOLVERS.map(solve, groups))
    res['solver_s'] = round(sum(o[3] for o in outs), 2)
    results = []; msgs = []
    for (rc, so, se, dt), group in zip(outs, groups):
        if rc == -9:
            res['status'] = 'undecided'; res['reason'] = 'timeout after %ds on %s' % (tmo, group[0] if len(group) == 1 else 'the automatic checks')
            res['time_s'] = round(time.time() - t0, 2)
            return res
        try:
            js = json.loads(so)
        except Exception:
            res['status'] = 'undecided'; res['reason'] = 'cbmc output not parseable (rc=%s): %s' % (rc, (se or so)[-800:])
            return res
        got = None
        for item in js:
            if 'result' in item:
                got = item['result']
            if item.get('messageType') in ('ERROR', 'WARNING'):
                msgs.append(item.get('messageText', ''))
        if got is None:
            res['status'] = 'undecided'; res['reason'] = 'no result list from cbmc (rc=%s): %s' % (rc, '; '.join(msgs)[-800:])
            return res
        results.extend(got)
    if any('ignoring' in m for m in msgs):
        res['status'] = 'undecided'; res['reason'] = 'solver ignored a quantifier: ' + '; '.join(m for m in msgs if 'ignoring' in m)[:300]
        return res
    nstep = 0; unknown = 0
    for p in results:
        name = p.get('property', ''); desc = p.get('description', ''); st = p.get('status')
        line = int(p.get('sourceLocation', {}).get('line', 0) or 0)
        if desc.startswith('canary '):
            res['canaries'][desc[7:]] = (st == 'FAILURE')
            continue
        if 'loop_invariant_step' in name or 'Check invariant after step' in desc or 'loop_step' in name:
            nstep += 1
        tags = classify(name, desc, line, built, fn)
        res['obligations'] += 1
        for t in tags:
            d = res['tags'].setdefault(t, [0, 0]); d[0] += 1
        if st == 'SUCCESS':
            res['discharged'] += 1
            for t in tags:
                res['tags'][t][1] += 1
        elif st != 'FAILURE':
            unknown += 1          # UNKNOWN / ERROR: the solver did not decide this obligation
        else:
            cl = built.model.clauses.get(line)
            res['failed'].append({'property': name, 'description': desc, 'line': line, 'status': st, 'tags': tags,
                                  'clause': cl['text'] if cl else None, 'spec': cl['src'] if cl else None,
                                  'file': p.get('sourceLocation', {}).get('file')})
    res['time_s'] = round(time.time() - t0, 2)
    if unknown and res['failed']:
        # obligations with a counterexample are failures whatever else the solver left open (the open ones are not counted as proved)
        res['status'] = 'failed'; res['reason'] = '%d further obligations were left undecided (status UNKNOWN) by cbmc' % unknown
        res['unknown'] = unknown
        return res
    if unknown:
        res['status'] = 'undecided'; res['reason'] = '%d obligations were left undecided (status UNKNOWN) by cbmc%s' % (unknown, '; %d failed: %s' % (len(res['failed']), res['failed'][0]['description'][:120]) if res['failed'] else '')
        return res
    if loops_needed and nstep == 0:
        res['status'] = 'undecided'; res['reason'] = 'loop contracts were not applied (no loop_invariant_step obligations)'
        return res
    # vacuity: the normal-exit canary of the target must be reachable
    if not res['canaries'].get(fn + ' ret', False) and not (case and res['canaries'].get(fn + ' exc', False)):
        res['status'] = 'undecided'; res['reason'] = 'vacuous: normal exit of %s unreachable under its requires/harness' % fn
        return res
    res['status'] = 'proved' if not res['failed'] else 'failed'
    if trace and res['failed']:
        names = [f['property'] for f in res['failed'][:3]]
        tr = []
        for nm in names:
            rc, so, se, dt = run(['cbmc', gb2, '--trace', '--property', nm] + flags, TIMEOUT)
            tr.append(so[-20000:])
        res['trace'] = tr
    if not keep:
        shutil.rmtree(wd, ignore_errors=True)
    return res


def prove_cases(built, fn, verbose, trace, keep):
    """a function whose proof is split by a partition of its entry states: one proof per case, merged"""
    sp = built.model.specs[fn]
    parts = list(CASEPOOL.map(lambda c: prove(built, fn, verbose, trace, keep, case=c[0]), sp.cases))
    res = dict(parts[0]); res['cases'] = [c[0] for c in sp.cases]
    res['obligations'] = sum(p['obligations'] for p in parts); res['discharged'] = sum(p['discharged'] for p in parts)
    res['failed'] = []
    for p, c in zip(parts, sp.cases):
        for f in p['failed']:
            f = dict(f); f['case'] = c[0]; res['failed'].append(f)
    res['tags'] = {}
    for p in parts:
        for t, (a, b) in p['tags'].items():
            d = res['tags'].setdefault(t, [0, 0]); d[0] += a; d[1] += b
    res['time_s'] = round(max(p['time_s'] for p in parts), 2)
    res['solver_s'] = round(sum(p.get('solver_s') or 0 for p in parts), 2)
    und = [p for p in parts if p['status'] == 'undecided']
    if und:
        res['status'] = 'undecided'; res['reason'] = '; '.join('case %s: %s' % (c[0], p['reason']) for p, c in zip(parts, sp.cases) if p['status'] == 'undecided')
    else:
        res['status'] = 'failed' if res['failed'] else 'proved'; res['reason'] = None
    # the normal exit need not be reachable in every case, but must be in at least one
    return res


def replay_violation(built, fn, prop_name, prop):
    """small-model counterexample of a failed obligation, replayed natively against the real header"""
    sys.path.insert(0, os.path.join(ROOT, 'replay'))
    import replay
    b = prove(built, fn, extra_defs=['-DREPLAY_SMALL'], build_only=True)
    if 'gb2' not in b:
        return {'reproduced': False, 'reason': 'small model could not be built: %s' % b.get('reason')}
    ce = replay.small_counterexample(b['gb2'], b['flags'], prop_name)
    if ce is None:
        shutil.rmtree(b['wd'], ignore_errors=True)
        return {'reproduced': False, 'reason': 'the obligation does not fail in the small model (inline capacity <= 4, capacity <= 8, counts <= 8): the verifier gives no natively replayable input'}
    nat = replay.native(prop, fn, built.cfg, ce, b['wd'])
    nat['counterexample'] = {k: v for k, v in ce.items()}
    shutil.rmtree(b['wd'], ignore_errors=True)
    return nat


def build(cfgname, wd):
    cfg = CONFIGS[cfgname]
    return Built(cfg, wd)


def main():
    ap = argparse.ArgumentParser()
    ap.add_argument('cmd')
    ap.add_argument('args', nargs='*')
    ap.add_argument('-v', action='store_true')
    ap.add_argument('--trace', action='store_true')
    ap.add_argument('--keep', action='store_true')
    ap.add_argument('--tier', default=os.environ.get('VERIF_TIER', 'quick'))
    ap.add_argument('-j', type=int, default=int(os.environ.get('VERIF_JOBS', '14')))
    a = ap.parse_args()
    if a.cmd == 'prove':
        wd = workdir()
        try:
            b = build(a.args[0], wd)
            fns = a.args[1:] or sorted(n for n, s in b.model.specs.items() if s.harness and n in b.model.em.by_cname)
            with concurrent.futures.ThreadPoolExecutor(max_workers=a.j) as ex:
                futs = {ex.submit(prove, b, fn, a.v, a.trace, a.keep): fn for fn in fns}
                for fut in concurrent.futures.as_completed(futs):
                    r = fut.result()
                    print('%-10s %-48s %5d/%-5d %6.1fs %s' % (r['status'], r['fn'], r['discharged'], r['obligations'], r['time_s'], r['reason'] or ''))
                    if os.environ.get('VERIF_TIMINGS'):
                        with open(os.environ['VERIF_TIMINGS'], 'a') as tf:
                            tf.write(json.dumps({'cfg': r['cfg'], 'fn': r['fn'], 'status': r['status'], 'wall_s': r['time_s'], 'cpu_s': r.get('solver_s'), 'obligations': r['obligations']}) + '\n')
                    for f in r['failed'][:int(os.environ.get('VERIF_SHOW', '6'))]:
                        print('     FAILED %s line %s %s | %s | %s' % (f['property'], f['line'], f['tags'], f['description'][:110], f['clause'] or ''))
                    if a.trace and r.get('trace'):
                        for t in r['trace']:
                            print(t)
            if a.keep:
                print('kept', wd)
        finally:
            if not a.keep:
                shutil.rmtree(wd, ignore_errors=True)
        return 0
    if a.cmd == 'list':
        wd = workdir()
        try:
            b = build(a.args[0], wd)
            for n, s in sorted(b.model.specs.items()):
                print(n, s.level, 'harness' if s.harness else '-', b.errors.get(n, ''))
        finally:
            shutil.rmtree(wd, ignore_errors=True)
        return 0
    if a.cmd == 'check':
        import check
        return check.run_check(a.args[0], a.tier, a.j)
    print(__doc__)
    return 2


if __name__ == '__main__':
    sys.exit(main())
