#!/usr/bin/env python3
"""C13, second sentence: conversions in the bulk-copy fast paths.

 (1) trait probe: the header's own selection traits allocator_interface<A>::is_memcpyable<From, To> and
     is_uninitialized_memcpyable<To, From> are evaluated by the compiler for every ordered pair of a grid of scalar types
     (integers, bool, character types, enums, floating point, object pointers with and without base-class offsets).
 (2) for every pair for which the header selects the byte-copy path, CBMC decides the obligation
        for all source values f:  object representation of static_cast<To> (f)  ==  the first sizeof (To) bytes of f
     on a loop-free harness over the full domain of f (complete, no bound).  Pointer pairs use the base-class offset the
     compiler reports for the pair (the obligation then reads `offset == 0 for every non-null f`).
 (3) acceptance: a translation unit that feeds ranges and single values of each convertible source type to the constructors,
     assign, insert, append and emplace_back must compile under every language standard (a fast path must not add requirements),
     and - as a supporting native run, labelled as such - every stored element equals static_cast<T> (source).
"""
import os, sys, re, json, subprocess, tempfile, shutil, time
ROOT = os.path.normpath(os.path.join(os.path.dirname(os.path.abspath(__file__)), '..'))
OUT = os.environ.get('VERIF_OUT', ROOT)      # evidence/ and replays/ go here (seed sweeps redirect them)
REPO = os.environ.get('VERIF_REPO', '/repo')
INC = REPO + '/source/include'

# (C++ spelling, C model type, kind)
TYPES = [
    ('bool', '_Bool', 'int'), ('char', 'char', 'int'), ('signed char', 'signed char', 'int'), ('unsigned char', 'unsigned char', 'int'),
    ('char16_t', 'unsigned short', 'int'), ('char32_t', 'unsigned int', 'int'), ('wchar_t', 'int', 'int'),
    ('short', 'short', 'int'), ('unsigned short', 'unsigned short', 'int'), ('int', 'int', 'int'), ('unsigned', 'unsigned', 'int'),
    ('long', 'long', 'int'), ('unsigned long', 'unsigned long', 'int'), ('long long', 'long long', 'int'), ('unsigned long long', 'unsigned long long', 'int'),
    ('e_u8', 'unsigned char', 'int'), ('e_bool', '_Bool', 'int'), ('e_i32', 'int', 'int'), ('e_u64', 'unsigned long', 'int'),
    ('float', 'float', 'flt'), ('double', 'double', 'flt'),
    ('int *', None, 'ptr'), ('const int *', None, 'ptr'), ('void *', None, 'ptr'), ('const void *', None, 'ptr'),
    ('B1 *', None, 'ptr'), ('B2 *', None, 'ptr'), ('D *', None, 'ptr'), ('const D *', None, 'ptr'), ('NP *', None, 'ptr'), ('VD *', None, 'ptr'),
]

PROBE_HEAD = r'''
#include <gch/small_vector.hpp>
#include <cstdio>
#include <type_traits>
enum e_u8 : unsigned char { e_u8_a = 1, e_u8_b = 200 };
enum e_bool : bool { e_bool_f = false, e_bool_t = true };
enum class e_i32 : int { a = -5, b = 7 };
enum e_u64 : unsigned long { e_u64_a = 1, e_u64_b = 0xffffffffffUL };
struct B1 { int x; }; struct B2 { int y; }; struct D : B1, B2 { int z; };
struct NP { int n; }; struct VD : NP { virtual void f () { } int m; };
template <typename T> struct P : gch::detail::allocator_interface<std::allocator<T>>
{
  using base = gch::detail::allocator_interface<std::allocator<T>>;
  template <typename F> static constexpr bool mc ()  { return base::template is_memcpyable<F, T>::value; }
  template <typename F> static constexpr bool umc () { return base::template is_uninitialized_memcpyable<T, F>::value; }
};
template <typename T> struct obj { static T *get () { static T o; return &o; } };
template <> struct obj<void> { static void *get () { static long o[8]; return o; } };
template <> struct obj<const void> { static const void *get () { static long o[8]; return o; } };
template <typename F, typename T, bool Ptr = std::is_pointer<F>::value && std::is_pointer<T>::value && std::is_convertible<F, T>::value>
struct off { static long get () { return 0; } };
template <typename F, typename T> struct off<F, T, true>
{
  static long get ()
  {
    using FP = typename std::remove_cv<typename std::remove_pointer<F>::type>::type;
    F f = const_cast<F> (obj<FP>::get ());
    T t = f;                                     // the implicit conversion the generic path performs
    return static_cast<long> (reinterpret_cast<const char *> (t) - reinterpret_cast<const char *> (f));
  }
};
template <typename F, typename T>
void row (const char *fn, const char *tn)
{
  std::printf ("%s|%s|%d|%d|%d|%d|%d|%ld|%zu|%zu\n", fn, tn,
               int (P<T>::template mc<F&> ()), int (P<T>::template mc<const F&> ()), int (P<T>::template umc<F&> ()), int (P<T>::template umc<const F&> ()),
               int (std::is_constructible<T, F&>::value), off<F, T>::get (), sizeof (F), sizeof (T));
}
int main ()
{
'''


def cbmc_ok(src, timeout=120):
    with tempfile.TemporaryDirectory(prefix='svc13_') as d:
        p = os.path.join(d, 'o.c')
        open(p, 'w').write(src)
        try:
            r = subprocess.run(['cbmc', p, '--json-ui', '--conversion-check', '--pointer-check', '--bounds-check', '--object-bits', '12'], capture_output=True, text=True, timeout=timeout)
        except subprocess.TimeoutExpired:
            return None, 'timeout'
        try:
            js = json.loads(r.stdout)
        except Exception:
            return None, 'unparsable cbmc output'
        res = {}
        for it in js:
            if 'result' in it:
                for pr in it['result']:
                    res[pr['property']] = (pr['status'], pr.get('description', ''))
        return res, None


def probe():
    """trait values for every ordered pair, evaluated by the compiler on the header"""
    body = PROBE_HEAD
    for f, _, _ in TYPES:
        for t, _, _ in TYPES:
            body += '  row<%s, %s> ("%s", "%s");\n' % (f, t, f, t)
    body += '  return 0;\n}\n'
    with tempfile.TemporaryDirectory(prefix='svc13_') as d:
        src = os.path.join(d, 'probe.cpp'); exe = os.path.join(d, 'probe')
        open(src, 'w').write(body)
        r = subprocess.run(['g++', '-std=c++17', '-DNDEBUG', '-O0', '-w', '-I', INC, src, '-o', exe], capture_output=True, text=True)
        if r.returncode != 0:
            raise RuntimeError('trait probe does not compile (traits renamed or inaccessible?): ' + r.stderr[-1500:])
        out = subprocess.run([exe], capture_output=True, text=True).stdout
    rows = []
    for l in out.strip().split('\n'):
        a = l.split('|')
        rows.append({'from': a[0], 'to': a[1], 'mc': a[2] == '1' or a[3] == '1', 'umc': a[4] == '1' or a[5] == '1', 'constructible': a[6] == '1',
                     'offset': int(a[7]), 'size_from': int(a[8]), 'size_to': int(a[9])})
    if len(rows) != len(TYPES) ** 2:
        raise RuntimeError('trait probe printed %d rows, expected %d' % (len(rows), len(TYPES) ** 2))
    return rows


def obligations_c(rows, chunk=0, nchunks=1):
    """one C function per pair on the byte-copy path: representation of the converted value == copied bytes, for all values"""
    ctype = {t[0]: t[1] for t in TYPES}; kind = {t[0]: t[2] for t in TYPES}
    src = ['#include <string.h>', 'char *nondet_ptr (void);']
    obs = []
    sel = [i for i, r in enumerate(rows) if r['mc'] or r['umc']]
    for i, r in enumerate(rows):
        if not (r['mc'] or r['umc']) or sel.index(i) % nchunks != chunk:
            continue
        f, t = r['from'], r['to']
        name = 'ob_%d' % i
        obs.append((name, r))
        if kind[f] == 'ptr' and kind[t] == 'ptr':
            src += ['void %s (void) { char *f = nondet_ptr (); __CPROVER_assume (f != 0);' % name,
                    '  char *conv = f + (%dL);   /* static_cast<%s> (f): base-class offset reported by the compiler */' % (r['offset'], t),
                    '  __CPROVER_assert (conv == f, "[C13] %s: byte copy of %s equals static_cast<%s>");' % (name, f, t),
                    '  __CPROVER_assert (%d == %d, "[C13] %s: same size"); }' % (r['size_from'], r['size_to'], name)]
        elif ctype[f] is not None and ctype[t] is not None:
            fc, tc = ctype[f], ctype[t]
            src += ['%s nondet_%d (void);' % (fc, i),
                    'void %s (void) { %s f = nondet_%d (); %s conv = (%s) f;' % (name, fc, i, tc, tc),
                    '  unsigned char a[sizeof (%s)], b[sizeof (%s)]; memcpy (a, &conv, sizeof a); memcpy (b, &f, sizeof b < sizeof f ? sizeof b : sizeof f);' % (tc, tc),
                    '  __CPROVER_assert (sizeof (%s) == sizeof (%s), "[C13] %s: same size");' % (fc, tc, name),
                    '  __CPROVER_assert (memcmp (a, b, sizeof a) == 0, "[C13] %s: byte copy of %s equals static_cast<%s>"); }' % (name, f, t)]
        else:
            src += ['void %s (void) { __CPROVER_assert (0, "[C13] %s: byte-copy path selected for the unlike pair %s -> %s"); }' % (name, name, f, t)]
    src.append('int main (void) {')
    for name, _ in obs:
        src.append('  %s ();' % name)
    src.append('  return 0; }')
    return '\n'.join(src) + '\n', obs


ACCEPT = r'''
// every call below is accepted by the generic (element-wise) path; the fast paths must accept it too (C13)
#include <gch/small_vector.hpp>
#include <cstdio>
#include <list>
enum e_u8 : unsigned char { e_u8_a = 1, e_u8_b = 200 };
struct B1 { int x; }; struct B2 { int y; }; struct D : B1, B2 { int z; };
static int bad = 0;
template <typename T, typename S>
void check (const gch::small_vector<T, 4>& v, const S *src, std::size_t n, std::size_t at, const char *what)
{
  for (std::size_t i = 0; i < n; ++i)
    if (! (v[at + i] == static_cast<T> (src[i]))) { std::printf ("MISMATCH %s element %zu\n", what, i); ++bad; }
}
template <typename T, typename S>
void run (const S (&src)[3], const char *name)
{
  { gch::small_vector<T, 4> v (src, src + 3);                           check (v, src, 3, 0, name); }
  { gch::small_vector<T, 4> v; v.assign (src, src + 3);                 check (v, src, 3, 0, name); }
  { gch::small_vector<T, 4> v; v.append (src, src + 3);                 check (v, src, 3, 0, name); }
  { gch::small_vector<T, 4> v (1); v.insert (v.begin (), src, src + 3); check (v, src, 3, 0, name); }
  { gch::small_vector<T, 4> v (2); v.assign (src, src + 3);             check (v, src, 3, 0, name); }
  { gch::small_vector<T, 4> v; v.emplace_back (src[0]); v.emplace_back (src[1]); S s = src[2]; v.emplace_back (s); v.emplace (v.begin (), s);
    check (v, src, 3, 1, name); check (v, &s, 1, 0, name); }
  { std::list<S> l (src, src + 3); gch::small_vector<T, 4> v (l.begin (), l.end ()); check (v, src, 3, 0, name); }
}
int main ()
{
  { const unsigned       s[3] = { 1u, 0x80000000u, 0xffffffffu };  run<int> (s, "unsigned -> int"); }
  { const int            s[3] = { -1, 0, 7 };                      run<unsigned> (s, "int -> unsigned"); }
  { const unsigned char  s[3] = { 0, 2, 255 };                     run<bool> (s, "unsigned char -> bool"); run<signed char> (s, "unsigned char -> signed char"); run<char> (s, "unsigned char -> char"); }
  { const bool           s[3] = { true, false, true };             run<unsigned char> (s, "bool -> unsigned char"); run<int> (s, "bool -> int"); }
  { const e_u8           s[3] = { e_u8_a, e_u8_b, e_u8_a };        run<unsigned char> (s, "enum -> unsigned char"); run<int> (s, "enum -> int"); }
  { const long           s[3] = { -1L, 1L << 40, 5L };             run<unsigned long> (s, "long -> unsigned long"); run<int> (s, "long -> int"); run<double> (s, "long -> double"); }
  { const double         s[3] = { 1.5, -2.25, 3e9 };               run<float> (s, "double -> float"); run<long> (s, "double -> long"); }
  { static D d[3]; D *const s[3] = { &d[0], &d[1], &d[2] };        run<B1 *> (s, "D* -> B1*"); run<B2 *> (s, "D* -> B2*"); run<const D *> (s, "D* -> const D*"); run<const void *> (s, "D* -> const void*"); }
  { static int i[3]; int *const s[3] = { &i[0], &i[1], &i[2] };    run<const int *> (s, "int* -> const int*"); run<void *> (s, "int* -> void*"); }
  std::printf (bad ? "FAIL %d\n" : "OK\n", bad);
  return bad ? 1 : 0;
}
'''

STDS = ['c++11', 'c++14', 'c++17', 'c++20', 'c++2b']


def run(tier='quick', replay_dir=None):
    """returns {'obligations', 'discharged', 'violations': [{'what', 'replay', 'reproduced'}], 'undecided': [...], 'rows': [...], 'solver_s'}"""
    t0 = time.time()
    replay_dir = replay_dir or os.path.join(OUT, 'replays')
    out = {'obligations': 0, 'discharged': 0, 'violations': [], 'undecided': [], 'rows': [], 'solver_s': 0.0}
    try:
        rows = probe()
    except Exception as e:
        out['undecided'].append('C13 conversion grid: ' + str(e)[:600])
        return out
    import concurrent.futures
    NCH = 12
    parts = [obligations_c(rows, c, NCH) for c in range(NCH)]
    obs = [o for _, ob in parts for o in ob]
    ts = time.time()
    with concurrent.futures.ThreadPoolExecutor(max_workers=NCH) as ex:
        rs = list(ex.map(lambda p: cbmc_ok(p[0], timeout=600), parts))
    out['solver_s'] = round(time.time() - ts, 1)
    res = {}
    for k, (r1, err) in enumerate(rs):
        if r1 is None:
            out['undecided'].append('C13 conversion grid: cbmc: ' + err)
            return out
        for pn, v in r1.items():
            res['%d:%s' % (k, pn)] = v
    by_ob = {}
    for pname, (status, desc) in res.items():
        m = re.search(r'\[C13\] (ob_\d+):', desc)
        if m:
            by_ob.setdefault(m.group(1), []).append((status, desc))
    os.makedirs(replay_dir, exist_ok=True)
    for name, r in obs:
        lst = by_ob.get(name, [])
        if not lst:
            out['undecided'].append('C13 conversion grid: no result for %s (%s -> %s)' % (name, r['from'], r['to']))
            continue
        for status, desc in lst:
            out['obligations'] += 1
            if status == 'SUCCESS':
                out['discharged'] += 1
            elif status == 'FAILURE':
                path = os.path.join(replay_dir, 'C13-conv-%s-to-%s.json' % (re.sub(r'\W+', '_', r['from']), re.sub(r'\W+', '_', r['to'])))
                json.dump({'property': 'C13', 'failed_obligation': desc, 'pair': r, 'header_trait': 'is_memcpyable / is_uninitialized_memcpyable select the byte-copy path for this pair',
                           'solver_output': 'cbmc: FAILURE: ' + desc}, open(path, 'w'), indent=1)
                out['violations'].append({'what': '%s -> %s: the header selects the byte-copy path but %s' % (r['from'], r['to'], desc), 'replay': path, 'reproduced': False,
                                          'key': 'conv:%s->%s' % (r['from'], r['to'])})
            else:
                out['undecided'].append('C13 conversion grid: %s: %s' % (name, status))
    out['rows'] = [{'from': r['from'], 'to': r['to'], 'byte_copy_assign': r['mc'], 'byte_copy_construct': r['umc'], 'offset': r['offset']} for _, r in obs]
    # acceptance TU under every standard (+ supporting native run)
    stds = STDS if tier == 'thorough' else ['c++11', 'c++17', 'c++20']
    with tempfile.TemporaryDirectory(prefix='svc13_') as d:
        tu = os.path.join(d, 'accept.cpp')
        open(tu, 'w').write(ACCEPT)
        for std in stds:
            for cxx in (['g++', 'clang++'] if tier == 'thorough' else ['g++']):
                out['obligations'] += 1
                exe = os.path.join(d, 'accept_%s_%s' % (cxx.replace('+', 'x'), std.replace('+', 'x')))
                r = subprocess.run([cxx, '-std=' + std, '-DNDEBUG', '-O1', '-w', '-I', INC, tu, '-o', exe], capture_output=True, text=True)
                if r.returncode != 0:
                    path = os.path.join(replay_dir, 'C13-accept-%s-%s.json' % (cxx.replace('+', 'x'), std.replace('+', 'x')))
                    errs = [l for l in r.stderr.split('\n') if 'error' in l][:12]
                    json.dump({'property': 'C13', 'failed_obligation': 'the acceptance translation unit compiles with %s -std=%s' % (cxx, std), 'translation_unit': ACCEPT,
                               'compiler_errors': errs, 'compiler_output': r.stderr[-6000:]}, open(path, 'w'), indent=1)
                    out['violations'].append({'what': 'with %s -std=%s a call accepted by the generic path does not compile: %s' % (cxx, std, (errs or ['?'])[0][:300]), 'replay': path,
                                              'reproduced': True, 'key': 'accept:%s' % std})
                    continue
                rr = subprocess.run([exe], capture_output=True, text=True)
                if rr.returncode != 0:
                    path = os.path.join(replay_dir, 'C13-accept-run-%s-%s.json' % (cxx.replace('+', 'x'), std.replace('+', 'x')))
                    json.dump({'property': 'C13', 'failed_obligation': 'stored element == static_cast<T> (source) (native supporting run, %s -std=%s)' % (cxx, std), 'translation_unit': ACCEPT,
                               'output': rr.stdout[-3000:]}, open(path, 'w'), indent=1)
                    out['violations'].append({'what': 'native run (%s -std=%s): %s' % (cxx, std, ', '.join(sorted(set(l for l in rr.stdout.split('\n') if l.startswith('MISMATCH'))))[:400]),
                                              'replay': path, 'reproduced': True, 'key': 'accept-run:%s' % std})
                else:
                    out['discharged'] += 1
    out['wall_s'] = round(time.time() - t0, 1)
    return out


if __name__ == '__main__':
    r = run(sys.argv[1] if len(sys.argv) > 1 else 'quick')
    for v in r['violations']:
        print('VIOLATION', v['key'], v['what'][:300])
    for u in r['undecided']:
        print('UNDECIDED', u)
    print('%d/%d obligations, %d byte-copy pairs, cbmc %.1fs' % (r['discharged'], r['obligations'], len(r['rows']), r['solver_s']))
