#include <gch/small_vector.hpp>
#include "vt.hpp"
#ifndef VT_N
#define VT_N 3
#endif
using E = vt::elem;
using A = vt::alloc<E>;
using V = gch::small_vector<E, VT_N, A>;
template class gch::small_vector<E, VT_N, A>;

#ifdef VT_M
// a second inline capacity: conversions between containers of different inline capacity
using VM = gch::small_vector<E, VT_M, A>;
template class gch::small_vector<E, VT_M, A>;
void vt_force_pair (V& v, const V& cv, VM& m, const VM& cm, A a)
{
  V c1 (cm);                                  // converting copy
  V c2 (static_cast<VM&&> (m));               // converting move
  V c3 (cm, a);
  V c4 (static_cast<VM&&> (m), a);
  v.assign (cm);
  v.assign (static_cast<VM&&> (m));
  v.append (cm);
  v.append (static_cast<VM&&> (m));
  (void) (cv == cm);
  (void) (cv != cm);
  (void) (cv < cm);
  (void) (cv <= cm);
  (void) (cv > cm);
  (void) (cv >= cm);
}
#endif

// member templates and overloads that explicit instantiation does not reach
void vt_force (V& v, const V& cv, const E& e, E&& re, vt::input_it ii, vt::fwd_it fi, const E *p, vt::gen g, A a, vt::pred pr)
{
  v.emplace_back (e);
  v.emplace_back (static_cast<E&&> (re));
  v.emplace_back (7);
  v.emplace (cv.begin (), e);
  v.emplace (cv.begin (), static_cast<E&&> (re));
  v.assign (ii, ii);
  v.assign (fi, fi);
  v.assign (p, p);
  v.insert (cv.begin (), ii, ii);
  v.insert (cv.begin (), fi, fi);
  v.insert (cv.begin (), p, p);
  v.append (ii, ii);
  v.append (fi, fi);
  v.append (p, p);
  V a1 (ii, ii, a);
  V a2 (fi, fi, a);
  V a3 (p, p, a);
  V a4 (3, g, a);
  v.append (cv);
  v.append (static_cast<V&&> (v));
  (void) (cv == cv);
  (void) (cv != cv);
  (void) (cv < cv);
  (void) (cv <= cv);
  (void) (cv > cv);
  (void) (cv >= cv);
  swap (v, v);
  (void) erase (v, e);
  (void) erase_if (v, pr);
  (void) size (cv);
  (void) ssize (cv);
  (void) empty (cv);
  (void) data (v);
  (void) begin (v);
  (void) end (v);
}
