// Minimal-requirement archetype (C13): trivially default-constructible, copy-constructible, NOT assignable.
// Only the operations whose documented requirements such a type meets are instantiated.
#include <gch/small_vector.hpp>
#include "vt.hpp"
#ifndef VT_N
#define VT_N 3
#endif
using E = vt::elem;
using A = vt::alloc<E>;
using V = gch::small_vector<E, VT_N, A>;
void vt_force_na (const E& e, A a)
{
  V a1 (2, a);            // DefaultInsertable only
  V a2 (2, e, a);         // CopyInsertable only
  a1.push_back (e);
  a1.emplace_back (e);
  a1.pop_back ();
  a1.clear ();
  a1.reserve (10);
  a1.shrink_to_fit ();
}
