// Environment types for the instantiation TUs.  Declarations only: the container is
// verified against contracts on these operations (/verif/env), never against bodies.
#pragma once
#include <cstddef>
#include <cstdint>
#include <iterator>
#include <memory>
#include <type_traits>

namespace vt
{
#ifndef VT_MOVE_NOEXCEPT
#define VT_MOVE_NOEXCEPT 1
#endif
#ifndef VT_COPYABLE
#define VT_COPYABLE 1
#endif
#ifndef VT_MOVABLE
#define VT_MOVABLE 1
#endif

#ifdef VT_TRIVIAL
  // Trivially copyable twin: same value type, all special members trivial (the memcpy/memmove/fill fast paths).
  struct elem
  {
    elem (void) = default;
    explicit elem (int);
#ifdef VT_NO_ASSIGN
    elem (const elem&) = default;
    elem& operator= (const elem&) = delete;     // trivially constructible and copyable, not assignable (minimal-requirement archetype)
#endif
    int payload;
  };
#ifndef VT_NO_ASSIGN
  static_assert (std::is_trivially_copyable<elem>::value && std::is_trivial<elem>::value, "trivial twin");
#endif
#else
  // Non-trivial element.  Flavour is chosen by the macros above (one flavour per TU).
  struct elem
  {
    elem (void);
#if VT_COPYABLE
    elem (const elem&);
    elem& operator= (const elem&);
#else
    elem (const elem&) = delete;
    elem& operator= (const elem&) = delete;
#endif
#if VT_MOVABLE
    elem (elem&&) noexcept (VT_MOVE_NOEXCEPT);
    elem& operator= (elem&&) noexcept (VT_MOVE_NOEXCEPT);
#endif
    ~elem (void);
    explicit elem (int);            // a converting source for emplace
    int payload;
  };
#endif

  bool operator== (const elem&, const elem&);
  bool operator<  (const elem&, const elem&);
#ifndef VT_SWAP_NOEXCEPT
#define VT_SWAP_NOEXCEPT VT_MOVE_NOEXCEPT
#endif
#ifndef VT_TRIVIAL
  void swap (elem&, elem&) noexcept (VT_SWAP_NOEXCEPT);     // found by ADL; may throw although the moves do not (flavour tswap)
#endif

#ifndef VT_SIZE_T
#define VT_SIZE_T std::size_t
#endif
#ifndef VT_POCCA
#define VT_POCCA 0
#endif
#ifndef VT_POCMA
#define VT_POCMA 0
#endif
#ifndef VT_POCS
#define VT_POCS 0
#endif
#ifndef VT_ALWAYS_EQUAL
#define VT_ALWAYS_EQUAL 0
#endif

  // Stateful allocator (state: int id).  Raw pointers only.
  template <typename T>
  struct alloc
  {
    using value_type      = T;
    using size_type       = VT_SIZE_T;
    using difference_type = std::ptrdiff_t;
    using propagate_on_container_copy_assignment = std::integral_constant<bool, VT_POCCA>;
    using propagate_on_container_move_assignment = std::integral_constant<bool, VT_POCMA>;
    using propagate_on_container_swap            = std::integral_constant<bool, VT_POCS>;
    using is_always_equal                        = std::integral_constant<bool, VT_ALWAYS_EQUAL>;

    alloc (void) noexcept;
    alloc (const alloc&) noexcept;
    alloc (alloc&&) noexcept;
    alloc& operator= (const alloc&) noexcept;
    alloc& operator= (alloc&&) noexcept;
    template <typename U> alloc (const alloc<U>&) noexcept;

    T *allocate (size_type n);
    void deallocate (T *p, size_type n) noexcept;
    size_type max_size (void) const noexcept;
    alloc select_on_container_copy_construction (void) const;

    int id;
  };

  template <typename T, typename U> bool operator== (const alloc<T>&, const alloc<U>&) noexcept;
  template <typename T, typename U> bool operator!= (const alloc<T>&, const alloc<U>&) noexcept;
  template <typename T> void swap (alloc<T>&, alloc<T>&) noexcept;

  // Caller's single-pass iterator.
  struct input_it
  {
    using iterator_category = std::input_iterator_tag;
    using value_type        = elem;
    using difference_type   = std::ptrdiff_t;
    using pointer           = const elem *;
    using reference         = const elem&;
    input_it (void);
    input_it (const input_it&);
    input_it& operator= (const input_it&);
    ~input_it (void);
    reference operator* (void) const;
    input_it& operator++ (void);
    input_it  operator++ (int);
    const elem *cur;
  };
  bool operator== (const input_it&, const input_it&);
  bool operator!= (const input_it&, const input_it&);

  // Caller's forward (multi-pass) iterator.
  struct fwd_it
  {
    using iterator_category = std::forward_iterator_tag;
    using value_type        = elem;
    using difference_type   = std::ptrdiff_t;
    using pointer           = const elem *;
    using reference         = const elem&;
    fwd_it (void);
    fwd_it (const fwd_it&);
    fwd_it& operator= (const fwd_it&);
    ~fwd_it (void);
    reference operator* (void) const;
    fwd_it& operator++ (void);
    fwd_it  operator++ (int);
    const elem *cur;
  };
  bool operator== (const fwd_it&, const fwd_it&);
  bool operator!= (const fwd_it&, const fwd_it&);

  // Caller's generator.
  struct gen
  {
    elem operator() (void);
    int state;
  };

  // Caller's unary predicate (erase_if).
  struct pred
  {
    bool operator() (const elem&) const;
    int state;
  };
}
