// Native replay driver: runs ONE public operation of the real gch::small_vector from a given (size, capacity) state with
// instrumented element / allocator types, once without faults and once per fault point, and evaluates the properties'
// predicates natively.  Compile: g++ -std=c++20 -DNDEBUG -DRN=<inline capacity> -DRMOVE_THROWS=<0|1> -I <repo>/source/include
// Usage: native_replay <op> <size> <cap> <count> <pos> <alias> [max_size]
//   alias < 0: the argument is an object outside the container; otherwise it is v[alias]
// Output: one line per violated property: "VIOLATED <Cxx> fault=<k|none> <what>"; exit code 1 if any.
#include <gch/small_vector.hpp>
#include <cstdio>
#include <cstdlib>
#include <cstring>
#include <map>
#include <set>
#include <string>
#include <vector>
#include <stdexcept>
#include <new>

#ifndef RN
#define RN 4
#endif
#ifndef RMOVE_THROWS
#define RMOVE_THROWS 0
#endif

static long fault_at = -1, fault_ctr = 0;       // the fault_at-th throwing-capable operation throws
static bool faults_armed = false;
static void maybe_throw (int kind) { if (faults_armed && fault_ctr++ == fault_at) { if (kind == 1) throw std::bad_alloc (); throw 42; } }

static std::set<const void *> live;              // addresses of live element objects
static std::vector<std::string> problems;        // lifetime rule violations seen by the element type itself
struct E
{
  int v; bool mf;
  E () : v (0), mf (false) { maybe_throw (0); born (); }
  explicit E (int x) : v (x), mf (false) { born (); }
  E (const E& o) : v (o.v), mf (o.mf) { o.check ("copy from dead"); maybe_throw (0); born (); }
  E (E&& o) noexcept (!RMOVE_THROWS) : v (o.v), mf (o.mf) { o.check ("move from dead"); if (RMOVE_THROWS) maybe_throw (0); o.v = -1; o.mf = true; born (); }
  E& operator= (const E& o) { check ("assign to dead"); o.check ("assign from dead"); maybe_throw (0); v = o.v; mf = o.mf; return *this; }
  E& operator= (E&& o) noexcept (!RMOVE_THROWS) { check ("assign to dead"); o.check ("assign from dead"); if (RMOVE_THROWS) maybe_throw (0); v = o.v; mf = o.mf; if (this != &o) { o.v = -1; o.mf = true; } return *this; }
  ~E () { if (!live.erase (this)) problems.push_back ("destroyed an object that is not alive"); }
  void born () { if (!live.insert (this).second) problems.push_back ("constructed over a live object"); }
  void check (const char *w) const { if (!live.count (this)) problems.push_back (w); }
};

static std::map<void *, std::pair<std::size_t, int>> blocks;   // live blocks: count, allocator id
static std::size_t g_max_size = (std::size_t) -1 / sizeof (E) / 2;
static std::size_t biggest_request = 0;
template <class T> struct A
{
  using value_type = T; int id = 0;
  A () = default; explicit A (int i) : id (i) {} template <class U> A (const A<U>& o) : id (o.id) {}
  T *allocate (std::size_t n) { if (n > biggest_request) biggest_request = n; maybe_throw (1); T *p = std::allocator<T> ().allocate (n); blocks[p] = {n, id}; return p; }
  void deallocate (T *p, std::size_t n) { auto it = blocks.find (p); if (it == blocks.end ()) problems.push_back ("deallocate of a block that is not live"); else { if (it->second.first != n) problems.push_back ("deallocate with a different count"); if (it->second.second != id) problems.push_back ("deallocate through an unequal allocator"); blocks.erase (it); } std::allocator<T> ().deallocate (p, n); }
  std::size_t max_size () const noexcept { return g_max_size; }
};
template <class T, class U> bool operator== (const A<T>& a, const A<U>& b) { return a.id == b.id; }
template <class T, class U> bool operator!= (const A<T>& a, const A<U>& b) { return a.id != b.id; }

using V = gch::small_vector<E, RN, A<E>>;
static bool data_inside (const V& v) { const char *o = reinterpret_cast<const char *> (&v), *d = reinterpret_cast<const char *> (v.data ()); return d >= o && d < o + sizeof (V); }

struct Scn { std::string op; long size, cap, count, pos, alias; };
static std::set<std::string> violated;
static void viol (const char *prop, long fault, const std::string& what)
{
  std::string key = std::string (prop) + what;
  if (violated.insert (key).second)
    std::printf ("VIOLATED %s fault=%s %s\n", prop, fault < 0 ? "none" : std::to_string (fault).c_str (), what.c_str ());
}

static void build (V& v, const Scn& s)
{
  if (s.cap > (long) RN) { V t ((std::size_t) s.cap, E (7), A<E> (1)); v = std::move (t); while ((long) v.size () > s.size) v.pop_back (); }
  else while ((long) v.size () < s.size) v.emplace_back (7);
  for (std::size_t i = 0; i < v.size (); ++i) v[i].v = 100 + (int) i;
}

// the reference result on std::vector<int>; returns false when the operation must throw length_error
static bool model (const Scn& s, std::vector<int>& m, int argval, bool& grows, std::size_t& needed)
{
  grows = true; needed = m.size ();
  std::size_t pos = (std::size_t) s.pos, n = (std::size_t) s.count;
  if (s.op == "push_back" || s.op == "push_back_move" || s.op == "emplace_back") { needed = m.size () + 1; m.push_back (argval); }
  else if (s.op == "insert_one") { needed = m.size () + 1; m.insert (m.begin () + pos, argval); }
  else if (s.op == "insert_n") { needed = m.size () + n; m.insert (m.begin () + pos, n, argval); }
  else if (s.op == "append_range" || s.op == "assign_range") { std::vector<int> src; for (std::size_t i = 0; i < n; ++i) src.push_back (500 + (int) i);
    if (s.op == "append_range") { needed = m.size () + n; m.insert (m.end (), src.begin (), src.end ()); } else { needed = n; m = src; } }
  else if (s.op == "assign_n") { needed = n; m.assign (n, argval); }
  else if (s.op == "resize") { needed = n; m.resize (n, 0); }
  else if (s.op == "resize_val") { needed = n; m.resize (n, argval); }
  else if (s.op == "reserve") { needed = n; }
  else if (s.op == "shrink_to_fit") { grows = false; }
  else if (s.op == "erase") { grows = false; m.erase (m.begin () + pos); }
  else if (s.op == "erase_range") { grows = false; m.erase (m.begin () + pos, m.begin () + pos + n); }
  else if (s.op == "pop_back") { grows = false; m.pop_back (); }
  else if (s.op == "clear") { grows = false; m.clear (); }
  else { std::printf ("unknown op %s\n", s.op.c_str ()); std::exit (2); }
  return needed <= g_max_size || needed <= 0;
}

static void run_one (const Scn& s, long fault)
{
  problems.clear (); biggest_request = 0;
  {
    V v (A<E> (1));
    faults_armed = false; build (v, s);
    if ((long) v.size () != s.size || (s.cap > (long) RN && (long) v.capacity () != s.cap)) { std::printf ("state not reachable: size %zu cap %zu\n", (size_t) v.size (), (size_t) v.capacity ()); std::exit (2); }
    E outside (999);
    const E& arg = s.alias >= 0 ? v[(std::size_t) s.alias] : outside;
    int argval = arg.v;
    std::vector<int> before; for (auto& e : v) before.push_back (e.v);
    std::vector<int> m = before; bool grows; std::size_t needed;
    bool fits_max = model (s, m, argval, grows, needed);
    const E *odata = v.data (); std::size_t ocap = v.capacity (), osize = v.size ();
    std::size_t live0 = live.size (), blocks0 = blocks.size ();
    std::vector<E> src; for (long i = 0; i < s.count && (s.op == "append_range" || s.op == "assign_range"); ++i) src.emplace_back (500 + (int) i);
    std::size_t live_extra = src.size ();
    bool threw = false, len_err = false;
    fault_at = fault; fault_ctr = 0; faults_armed = true;
    try {
      if (s.op == "push_back") v.push_back (arg); else if (s.op == "emplace_back") v.emplace_back (arg);
      else if (s.op == "push_back_move") v.push_back (std::move (outside));
      else if (s.op == "insert_one") v.insert (v.begin () + s.pos, arg);
      else if (s.op == "insert_n") v.insert (v.begin () + s.pos, (std::size_t) s.count, arg);
      else if (s.op == "append_range") v.append (src.data (), src.data () + src.size ());
      else if (s.op == "assign_range") v.assign (src.data (), src.data () + src.size ());
      else if (s.op == "assign_n") v.assign ((std::size_t) s.count, arg);
      else if (s.op == "resize") v.resize ((std::size_t) s.count); else if (s.op == "resize_val") v.resize ((std::size_t) s.count, arg);
      else if (s.op == "reserve") v.reserve ((std::size_t) s.count); else if (s.op == "shrink_to_fit") v.shrink_to_fit ();
      else if (s.op == "erase") v.erase (v.begin () + s.pos); else if (s.op == "erase_range") v.erase (v.begin () + s.pos, v.begin () + s.pos + s.count);
      else if (s.op == "pop_back") v.pop_back (); else if (s.op == "clear") v.clear ();
    } catch (const std::length_error&) { threw = true; len_err = true; } catch (...) { threw = true; }
    faults_armed = false;
    // ---- C02 / C06: storage invariants
    const char *inv = nullptr;
    if (v.size () > v.capacity ()) inv = "size() > capacity()";
    else if (v.capacity () < RN) inv = "capacity() < inline_capacity()";
    else if (v.inlined () != (v.capacity () == RN)) inv = "inlined() != (capacity() == inline_capacity())";
    else if (RN > 0 && v.inlined () != data_inside (v)) inv = "inlined() but data() outside the object (or vice versa)";
    if (inv) viol (threw ? "C06" : "C02", fault, inv);
    // ---- C03 / C06: lifetimes
    std::size_t expect_live = live0 + live_extra + (v.size () - osize) + (s.op == "push_back_move" ? 0 : 0);
    bool all_alive = true; for (auto& e : v) if (!live.count (&e)) all_alive = false;
    if (!all_alive || live.size () != expect_live) viol (threw ? "C06" : "C03", fault, "live element objects are not exactly the size() elements (" + std::to_string (live.size ()) + " vs " + std::to_string (expect_live) + ")");
    for (auto& p : problems) viol (p.find ("deallocate") != std::string::npos ? "C04" : "C03", fault, p);
    // ---- C04 / C06: blocks
    std::size_t expect_blocks = blocks0 - (odata && ocap > RN ? 1 : 0) + (v.capacity () > RN ? 1 : 0);
    if (blocks.size () != expect_blocks || (v.capacity () > RN && !blocks.count ((void *) v.data ()))) viol (threw ? "C06" : "C04", fault, "live blocks are not exactly the heap buffers");
    // ---- C12
    if (grows && !fits_max && needed > ocap && !len_err) viol ("C12", fault, "resulting size exceeds max_size() but no length_error");
    if (biggest_request > g_max_size) viol ("C12", fault, "allocate(n) with n > max_size()");
    if (v.size () > g_max_size) viol ("C12", fault, "size() > max_size()");
    if (threw)
      {
        static const std::set<std::string> strong = {"push_back", "push_back_move", "emplace_back", "reserve", "resize", "resize_val", "shrink_to_fit", "append_range"};
        bool same = v.size () == before.size (); for (std::size_t i = 0; same && i < v.size (); ++i) same = v[i].v == before[i] && !v[i].mf;
        if ((strong.count (s.op) || (s.op == "insert_one" && s.pos == (long) osize)) && !(s.op == "resize" && s.count == 0))
          {
            if (!same) viol ("C05", fault, "failed call changed size or element values (or left an element moved-from)");
            if (s.op != "append_range" && (v.data () != odata || v.capacity () != ocap)) viol ("C05", fault, "failed call changed data() or capacity()");
          }
      }
    else
      {
        bool eq = v.size () == m.size (); for (std::size_t i = 0; eq && i < m.size (); ++i) eq = v[i].v == m[i];
        if (!eq) viol (s.alias >= 0 ? "C11" : "C01", fault, "contents differ from std::vector driven by the same call");
        if (!eq && s.alias >= 0) viol ("C01", fault, "contents differ from std::vector driven by the same call");
        if (grows && needed <= ocap && s.op != "shrink_to_fit" && (v.data () != odata || v.capacity () != ocap)) viol ("C10", fault, "result fits but data() or capacity() changed");
        if (!grows && s.op != "shrink_to_fit" && (v.data () != odata || v.capacity () != ocap)) viol ("C10", fault, "erasing operation changed data() or capacity()");
        if (v.capacity () != ocap && grows && (v.capacity () < needed || (v.capacity () < ocap + ocap / 2 && v.capacity () != g_max_size))) viol ("C14", fault, "growth is not geometric: " + std::to_string (ocap) + " -> " + std::to_string (v.capacity ()));
        if (s.op == "shrink_to_fit" && v.capacity () != (v.size () > RN ? v.size () : (std::size_t) RN)) viol ("C02", fault, "capacity() after shrink_to_fit");
      }
  }
  if (!live.empty ()) { viol ("C03", fault, "element objects alive after the container's destruction"); live.clear (); }
  if (!blocks.empty ()) { viol ("C04", fault, "blocks alive after the container's destruction"); blocks.clear (); }
}

int main (int argc, char **argv)
{
  if (argc < 7) { std::printf ("usage: %s op size cap count pos alias [max_size]\n", argv[0]); return 2; }
  Scn s { argv[1], std::atol (argv[2]), std::atol (argv[3]), std::atol (argv[4]), std::atol (argv[5]), std::atol (argv[6]) };
  if (argc > 7) g_max_size = (std::size_t) std::atol (argv[7]);
  if (s.cap < (long) RN) s.cap = RN;
  run_one (s, -1);
  for (long k = 0; k < 64; ++k) run_one (s, k);
  return violated.empty () ? 0 : 1;
}
