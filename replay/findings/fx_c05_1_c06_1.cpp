// native demonstrations for the defects repaired by fix: commits (exit code = bitmask of reproduced defects)
#include <gch/small_vector.hpp>
#include <cstdio>
#include <set>
#include <stdexcept>
#include <iterator>
static std::set<const void*> live; static int throw_move_at = -1, moves = 0; static long blocks = 0;
struct T { int v; T(int x=0):v(x){live.insert(this);} T(const T& o):v(o.v){live.insert(this);} 
  T(T&& o) noexcept(false) :v(o.v){ if (moves++ == throw_move_at) throw 1; o.v=-1; live.insert(this);} 
  T& operator=(const T&o){v=o.v;return *this;} T& operator=(T&&o) noexcept(false){v=o.v;o.v=-1;return *this;} ~T(){live.erase(this);} };
template <class U> struct A { using value_type=U; A()=default; template<class V> A(const A<V>&){}
  U* allocate(std::size_t n){ ++blocks; return std::allocator<U>().allocate(n);} void deallocate(U*p,std::size_t n){--blocks; std::allocator<U>().deallocate(p,n);} };
template<class U,class V> bool operator==(const A<U>&,const A<V>&){return true;}
template<class U,class V> bool operator!=(const A<U>&,const A<V>&){return false;}
struct It { using iterator_category=std::forward_iterator_tag; using value_type=T; using difference_type=std::ptrdiff_t; using pointer=const T*; using reference=const T&;
  const T* p; int* budget; reference operator*() const {return *p;} It& operator++(){ if ((*budget)-- == 0) throw 2; ++p; return *this;} It operator++(int){It t=*this; ++*this; return t;}
  friend bool operator==(const It&a,const It&b){return a.p==b.p;} friend bool operator!=(const It&a,const It&b){return a.p!=b.p;} };
int main(){ int rc=0;
  { // F2: shrink_to_fit with a throwing move: strong guarantee + no leak
    gch::small_vector<T,2,A<T>> v; for(int i=0;i<6;i++) v.emplace_back(i); v.reserve(32); long b0=blocks; moves=0; throw_move_at=3; bool thrown=false;
    try { v.shrink_to_fit(); } catch(int){thrown=true;} throw_move_at=-1;
    bool same=true; for(int i=0;i<6;i++) same = same && v[i].v==i;
    if (thrown && (!same || blocks!=b0)) { std::printf("F2 reproduced: values kept=%d blocks %ld->%ld\n",same,b0,blocks); rc|=1; } }
  { // F5: constructing from forward iterators whose ++ throws leaks the element built last
    T src[5]={1,2,3,4,5}; size_t l0=live.size(); int budget=2+5; /* distance() uses 5 increments first */ 
    try { gch::small_vector<T,8,A<T>> v(It{src,&budget}, It{src+5,&budget}); } catch(int){}
    if (live.size()!=l0) { std::printf("F5 reproduced: %zu element(s) never destroyed\n", live.size()-l0); rc|=2; } }
  std::printf("rc=%d\n",rc); return rc; }
