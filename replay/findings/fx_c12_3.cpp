#include <gch/small_vector.hpp>
#include <cstdio>
#include <cstdint>
#include <stdexcept>
#include <memory>
template <class T> struct a8 { using value_type=T; using size_type=std::uint8_t; using difference_type=std::ptrdiff_t; a8()=default; template<class U> a8(const a8<U>&){}
  T* allocate(std::size_t n){ return std::allocator<T>().allocate(n);} void deallocate(T*p,std::size_t n){std::allocator<T>().deallocate(p,n);} };
template<class T,class U> bool operator==(const a8<T>&,const a8<U>&){return true;}
template<class T,class U> bool operator!=(const a8<T>&,const a8<U>&){return false;}
int main(){ int src[260]={0}; gch::small_vector<int,4,a8<int>> v; bool le=false;
  try { v.assign(src, src+260); } catch (const std::length_error&) { le=true; }
  std::printf("length_error=%d size=%u\n", le, (unsigned)v.size()); return le ? 0 : 1; }
