#include <gch/small_vector.hpp>
#include <cstdio>
struct B1 { int x; }; struct B2 { int y; }; struct D : B1, B2 { };
int main ()
{
#ifdef T1
  unsigned a[3] = { 1, 2, 3 };
  gch::small_vector<int, 4> v;
  v.assign (a, a + 3);
  gch::small_vector<int, 4> w (a, a + 3);
  std::printf ("%d %d\n", v[2], w[2]);
#endif
#ifdef T2
  D d[2]; D *arr[2] = { &d[0], &d[1] };
  gch::small_vector<B2 *, 4> v;
  v.assign (arr, arr + 2);
  std::printf ("%d\n", v[0] == static_cast<B2 *> (&d[0]));
  return v[0] == static_cast<B2 *> (&d[0]) ? 0 : 1;
#endif
#ifdef T3
  D d[2];
  gch::small_vector<B2 *, 4> v;
  v.emplace_back (&d[0]);
  v.push_back (&d[1]);
  D *p = &d[0];
  v.emplace_back (p);
  std::printf ("%d %d %d\n", v[0] == static_cast<B2 *> (&d[0]), v[1] == static_cast<B2 *> (&d[1]), v[2] == static_cast<B2 *> (&d[0]));
  return v[0] == static_cast<B2 *> (&d[0]) && v[2] == static_cast<B2 *> (&d[0]) ? 0 : 1;
#endif
}
