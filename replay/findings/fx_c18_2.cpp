#include <gch/small_vector.hpp>
#include <cstdio>
#include <cstdlib>
#include <new>
#include <exception>
static bool fail_alloc = false;
template <class T> struct fa { using value_type=T; fa()=default; template<class U> fa(const fa<U>&){}
  T* allocate(std::size_t n){ if (fail_alloc) throw std::bad_alloc(); return std::allocator<T>().allocate(n);} void deallocate(T*p,std::size_t n){std::allocator<T>().deallocate(p,n);} };
template<class T,class U> bool operator==(const fa<T>&,const fa<U>&){return true;}
template<class T,class U> bool operator!=(const fa<T>&,const fa<U>&){return false;}
int main(){ std::set_terminate([]{ std::printf("std::terminate called: exception could not leave a noexcept function\n"); std::_Exit(3); });
  gch::small_vector<int,8,fa<int>> src; for (int i=0;i<5;i++) src.push_back(i);   // inline, 5 elements
  fail_alloc = true; bool caught=false;
  try { gch::small_vector<int,2,fa<int>> dst(std::move(src)); } catch (const std::bad_alloc&) { caught=true; }
  std::printf("bad_alloc reached the caller: %d\n", caught); return caught ? 0 : 1; }
