#include <gch/small_vector.hpp>
#include <cstdio>
#include <memory>
template <class T> struct tiny { using value_type=T; tiny()=default; template<class U> tiny(const tiny<U>&){} 
  T* allocate(std::size_t n){ return std::allocator<T>().allocate(n);} void deallocate(T*p,std::size_t n){std::allocator<T>().deallocate(p,n);} 
  std::size_t max_size() const noexcept { return 2; } };
template<class T,class U> bool operator==(const tiny<T>&,const tiny<U>&){return true;}
template<class T,class U> bool operator!=(const tiny<T>&,const tiny<U>&){return false;}
int main(){ gch::small_vector<int,5,tiny<int>> v; for(int i=0;i<5;i++) v.push_back(i); std::printf("size=%zu max_size=%zu cap=%zu\n",(size_t)v.size(),(size_t)v.max_size(),(size_t)v.capacity()); return v.size()>v.max_size(); }
