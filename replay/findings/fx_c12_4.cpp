// constant evaluation: insert within capacity goes through heap_temporary, which asks the allocator for sizeof (T) ELEMENTS
#include <gch/small_vector.hpp>
#include <memory>
#include <cstdio>
template <typename T>
struct counting_alloc
{
  using value_type = T;
  std::size_t *max_req;
  constexpr explicit counting_alloc (std::size_t *m) noexcept : max_req (m) { }
  template <typename U> constexpr counting_alloc (const counting_alloc<U>& o) noexcept : max_req (o.max_req) { }
  constexpr T *allocate (std::size_t n) { if (n > *max_req) *max_req = n; return std::allocator<T> ().allocate (n); }
  constexpr void deallocate (T *p, std::size_t n) { std::allocator<T> ().deallocate (p, n); }
  constexpr std::size_t max_size () const { return 4; }
  constexpr bool operator== (const counting_alloc&) const noexcept { return true; }
  constexpr bool operator!= (const counting_alloc&) const noexcept { return false; }
};
struct big { long a[4]; constexpr big (long x = 0) : a { x, x, x, x } { } };   // sizeof == 32
constexpr std::size_t largest_request ()
{
  std::size_t m = 0;
  {
    gch::small_vector<big, 4, counting_alloc<big>> v { counting_alloc<big> (&m) };
    v.push_back (big (1));
    v.push_back (big (2));
    v.insert (v.begin (), big (3));          // within capacity (3 <= 4 <= max_size ())
    const big x (4);
    v.insert (v.begin (), 1, x);
  }
  return m;
}
int main ()
{
  constexpr std::size_t ce = largest_request ();
  std::size_t rt = largest_request ();
  std::printf ("largest allocate(n): constant evaluation n=%zu, run time n=%zu, max_size()=4\n", ce, rt);
  return ce > 4 ? 1 : 0;
}
