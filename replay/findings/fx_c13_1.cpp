// C13: an operation that only needs default construction must not require assignability (std::vector<X>(3) compiles)
#include <gch/small_vector.hpp>
#include <vector>
struct X { int v; X () = default; X (const X&) = default; X& operator= (const X&) = delete; };
static_assert (std::is_trivially_default_constructible<X>::value, "");
int main () { std::vector<X> s (3); gch::small_vector<X, 4> v (3); return v.size () == 3 && s.size () == 3 ? 0 : 1; }
