#include <gch/small_vector.hpp>
#include <cstdio>
#include <stdexcept>
#include <memory>
static std::size_t biggest_request = 0;
template <class T> struct lim { using value_type=T; lim()=default; template<class U> lim(const lim<U>&){}
  T* allocate(std::size_t n){ if (n > biggest_request) biggest_request = n; return std::allocator<T>().allocate(n);} void deallocate(T*p,std::size_t n){std::allocator<T>().deallocate(p,n);}
  std::size_t max_size() const noexcept { return 10; } };
template<class T,class U> bool operator==(const lim<T>&,const lim<U>&){return true;}
template<class T,class U> bool operator!=(const lim<T>&,const lim<U>&){return false;}
int main(){ int src[20]={0}; bool le=false;
  try { gch::small_vector<int,2,lim<int>> v(src, src+20); std::printf("constructed size=%zu max_size=%zu\n",(size_t)v.size(),(size_t)v.max_size()); }
  catch (const std::length_error&) { le=true; }
  std::printf("length_error=%d biggest allocate request=%zu (max_size 10)\n", le, biggest_request);
  return (le && biggest_request <= 10) ? 0 : 1; }
