"""Counterexample replay: re-run the failed obligation in a small model (inline capacity <= 4, capacity <= 8, counts <= 6) to get a
replayable CBMC counterexample, read the entry state from its trace, and drive the REAL header natively (native_replay.cpp) from that
state with every fault point, evaluating the property's predicate natively."""
import os, sys, json, re, subprocess, tempfile, shutil

ROOT = os.path.normpath(os.path.join(os.path.dirname(os.path.abspath(__file__)), '..'))
REPO = os.environ.get('VERIF_REPO', '/repo')

OPS = [  # (function-name prefix, native operation, position rule)
    ('svb_append_element__pcE', 'push_back', None), ('sv_push_back__pcE', 'push_back', None), ('sv_emplace_back__pcE', 'emplace_back', None),
    ('svb_append_element__pE', 'push_back_move', None), ('sv_push_back__pE', 'push_back_move', None),
    ('svb_append_copies', 'insert_n', 'end'), ('svb_insert_copies', 'insert_n', 'pos'), ('sv_insert__svcit_ul_pcE', 'insert_n', 'pos'),
    ('svb_emplace_into_current__pE_pcE', 'insert_one', 'pos'), ('svb_emplace_into_reallocation__pE_pcE', 'insert_one', 'pos'),
    ('svb_shift_into_uninitialized', 'insert_one', 'pos'),
    ('svb_request_capacity', 'reserve', None), ('sv_reserve', 'reserve', None), ('svb_unchecked_calculate_new_capacity', 'reserve', None),
    ('svb_resize_with__ul_pcE', 'resize_val', None), ('sv_resize__ul_pcE', 'resize_val', None), ('svb_resize_with__ul', 'resize', None), ('sv_resize__ul', 'resize', None),
    ('svb_shrink_to_size', 'shrink_to_fit', None), ('sv_shrink_to_fit', 'shrink_to_fit', None),
    ('svb_append_range__strong_pcE_pcE', 'append_range', None), ('sv_append__pcE_pcE', 'append_range', None),
    ('svb_assign_with_copies', 'assign_n', None), ('sv_assign__ul_pcE', 'assign_n', None), ('svb_assign_with_range__pcE_pcE', 'assign_range', None),
    ('svb_erase_at', 'erase', 'pos'), ('sv_erase__svcit_svcit', 'erase_range', 'pos'), ('sv_erase__svcit', 'erase', 'pos'), ('svb_erase_range', 'erase_range', 'pos'),
    ('svb_erase_last', 'pop_back', None), ('sv_pop_back', 'pop_back', None), ('svb_erase_all', 'clear', None), ('sv_clear', 'clear', None), ('svb_erase_to_end', 'erase_range', 'pos'),
]


def op_for(fn):
    fn = fn.split('@')[0]
    for pre, op, rule in OPS:
        if fn == pre:
            return op, rule
    return None, None


def _num(s):
    m = re.match(r'^-?\d+', str(s))
    return int(m.group(0)) if m else None


def small_counterexample(gb2, flags, prop_name, timeout=240):
    """cbmc --trace on the failing property; returns {var: value} read from the harness frames, or None"""
    try:
        r = subprocess.run(['cbmc', gb2, '--json-ui', '--trace', '--property', prop_name] + flags, capture_output=True, text=True, timeout=timeout)
        js = json.loads(r.stdout)
    except Exception:
        return None
    tr = None
    for it in js:
        if 'result' in it:
            for p in it['result']:
                if p.get('status') == 'FAILURE' and p.get('trace'):
                    tr = p['trace']
    if tr is None:
        return None
    vals = {}; svb = []; cur = {}
    for st in tr:
        if st.get('stepType') != 'assignment' or st.get('hidden'):
            continue
        lhs = st.get('lhs', ''); fn = st.get('sourceLocation', {}).get('function', ''); v = _num(st.get('value', {}).get('data'))
        if v is None:
            continue
        if lhs in ('CAP_N', 'CAP_M', 'ALLOC_MAX'):
            vals[lhs] = v
        elif fn.startswith('mk_svb') and lhs == 'n' and 'CAP_N' not in vals:
            vals['CAP_N'] = v          # the inline capacity chosen by the solver (argument of the first container built)
        elif fn.startswith('mk_svb') and lhs in ('cap', 'size'):
            cur[lhs] = v
            if 'cap' in cur and 'size' in cur:
                svb.append(cur); cur = {}
        elif fn == 'mk_pos' and lhs == 'k':
            vals.setdefault('pos_k', []).append(v)
        elif fn == 'mk_cell_maybe_in' and lhs == 'k':
            vals['alias_k'] = v
        elif fn.startswith('harness_') and lhs in ('count', 'new_size', 'request', 'n', 'n_shift', 'req', 'm', 'e'):
            vals[lhs] = v
    vals['svb'] = svb
    return vals


def native(prop, fn, cfg, ce, wd):
    """build and run the native driver on the counterexample's entry state; returns dict"""
    op, rule = op_for(fn)
    if op is None or not ce or not ce.get('svb'):
        return {'reproduced': False, 'reason': 'no native driver for %s or no entry state in the counterexample' % fn}
    n = ce.get('CAP_N', 4)
    if n > 64:
        return {'reproduced': False, 'reason': 'counterexample needs inline capacity %d' % n}
    size = ce['svb'][0]['size']; cap = ce['svb'][0]['cap']
    if cap > 4096:
        return {'reproduced': False, 'reason': 'counterexample needs capacity %d' % cap}
    count = ce.get('count', ce.get('new_size', ce.get('request', ce.get('n', ce.get('req', ce.get('m', 1))))))
    pk = ce.get('pos_k', [])
    pos = size if rule == 'end' or not pk else pk[0]
    if op == 'erase_range' and len(pk) >= 2:
        pos, count = min(pk[0], pk[1]), abs(pk[1] - pk[0])
    if fn.startswith('svb_erase_to_end') and pk:
        pos, count = pk[0], size - pk[0]
    alias = ce.get('alias_k', -1)
    maxs = ce.get('ALLOC_MAX')
    if count is not None and count > 100000:
        return {'reproduced': False, 'reason': 'counterexample needs count %d (not replayable natively)' % count,
                'scenario': {'op': op, 'N': n, 'size': size, 'cap': cap, 'count': count}}
    move_throws = 1 if cfg.get('facts', {}).get('MOVE_NOEXCEPT', 1) == 0 else 0
    exe = os.path.join(wd, 'native_replay')
    cmd = ['g++', '-std=c++17', '-DNDEBUG', '-O1', '-DRN=%d' % n, '-DRMOVE_THROWS=%d' % move_throws, '-I', REPO + '/source/include',
           os.path.join(ROOT, 'replay', 'native_replay.cpp'), '-o', exe]
    r = subprocess.run(cmd, capture_output=True, text=True)
    if r.returncode != 0:
        return {'reproduced': False, 'reason': 'native driver does not compile: ' + r.stderr[-300:]}
    args = [exe, op, str(size), str(cap), str(count if count is not None else 1), str(pos), str(alias)]
    if maxs is not None and maxs < (1 << 40):
        args.append(str(maxs))
    try:
        r = subprocess.run(args, capture_output=True, text=True, timeout=120)
    except subprocess.TimeoutExpired:
        return {'reproduced': False, 'reason': 'native run timed out', 'command': ' '.join(args)}
    out = r.stdout.strip().split('\n') if r.stdout.strip() else []
    hit = [l for l in out if l.startswith('VIOLATED ' + prop + ' ')]
    return {'reproduced': bool(hit), 'command': ' '.join(cmd) + ' && ' + ' '.join(args[1:]), 'scenario': {'op': op, 'N': n, 'size': size, 'cap': cap, 'count': count, 'pos': pos, 'alias': alias, 'max_size': maxs, 'throwing_move': bool(move_throws)},
            'native_output': out[:12], 'exit_code': r.returncode}
