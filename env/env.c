/* Executable specifications of the boundary operations (see env.h). */
#include <stdlib.h>
#include "env.h"

_Bool exc; int exc_kind;
unsigned int CAP_N, CAP_M; unsigned long ALLOC_MAX;
Elem *WP[NW + 1]; int WS[NW + 1];
Elem *WB; int WBL; unsigned long WBN; int WBA;
unsigned long alloc_calls, dealloc_calls, gen_calls; unsigned int used_kinds;

#define FORALLW(X) X (0) X (1) X (2)
#define FORNW(X)   X (0) X (1)
#define THROW(kind) do { exc = 1; exc_kind = (kind); } while (0)
#define METER(k) do { used_kinds |= (k); } while (0)

/* ---- cell helpers ------------------------------------------------------------------------- */
#define REQ_RAW1(i)  __CPROVER_assert (!(p == WP[i] && LIVE (i)), "[C03] element constructed over a live element");
#define REQ_LIVE_P1(i) __CPROVER_assert (!(p == WP[i] && RAW (i)), "[C03] operation on storage that holds no live element");
#define REQ_LIVE_S1(i) __CPROVER_assert (!(src == WP[i] && RAW (i)), "[C03] read of storage that holds no live element");
#define GET1(i) if (src == WP[i]) { v = WS[i]; }
#define SET1(i) if (p == WP[i]) { WS[i] = v; }
#define SETMF1(i) if (src == WP[i]) { WS[i] = S_MF; }
#define SETDEAD1(i) if (p == WP[i]) { WS[i] = S_RAW; }
static int nondet_value (void) { int v = nondet_int (); __CPROVER_assume (v != S_RAW); return v; }   /* some live state */

static void req_storage_w (const void *p) { __CPROVER_assert (__CPROVER_w_ok (p, ESZ), "[C03,C12,C13] element storage lies inside memory the container owns"); }
static void req_storage_r (const void *p) { __CPROVER_assert (__CPROVER_r_ok (p, ESZ), "[C03,C13] element read lies inside a live object"); }

void env_fresh_object (const void *obj)
{
#define FRESH1(i) __CPROVER_assume (!(SAMEOBJ (WP[i], obj) && LIVE (i)));
  FORNW (FRESH1)
}

void env_track_temp (Elem *cell)
{
  WP[WT] = cell; WS[WT] = S_RAW;
}

void env_untrack_temp (void)
{
  __CPROVER_assert (WS[WT] == S_RAW, "[C03] temporary destroyed while its element is still alive");
  WP[WT] = 0;
}

/* ---- element operations -------------------------------------------------------------------- */
void env_elem_construct_default (Elem *p)
{
  req_storage_w (p);
  FORALLW (REQ_RAW1)
  METER (K_DEFAULT);
  if (DEFAULT_MAY_THROW && nondet_bool ()) { THROW (EXC_ELEMENT); return; }
  int v = 0;
  FORALLW (SET1)
}

void env_elem_construct_copy (Elem *p, const Elem *src)
{
  req_storage_w (p); req_storage_r (src);
  FORALLW (REQ_RAW1) FORALLW (REQ_LIVE_S1)
  METER (K_COPY);
  if (COPY_MAY_THROW && nondet_bool ()) { THROW (EXC_ELEMENT); return; }
  int v = nondet_value ();
  FORALLW (GET1)
  FORALLW (SET1)
}

void env_elem_construct_move (Elem *p, Elem *src)
{
  req_storage_w (p); req_storage_r (src);
  FORALLW (REQ_RAW1) FORALLW (REQ_LIVE_S1)
  METER (K_MOVE);
  if (MOVE_MAY_THROW && nondet_bool ()) { THROW (EXC_ELEMENT); return; }
  int v = nondet_value ();
  FORALLW (GET1)
  FORALLW (SETMF1)
  FORALLW (SET1)
}

void env_elem_construct_int (Elem *p, int x)
{
  req_storage_w (p);
  FORALLW (REQ_RAW1)
  METER (K_CONVERT);
  if (COPY_MAY_THROW && nondet_bool ()) { THROW (EXC_ELEMENT); return; }
  int v = x;
  if (v == S_RAW || v == S_MF) v = 0;
  FORALLW (SET1)
}

void env_elem_destroy (Elem *p)
{
  req_storage_w (p);
  FORALLW (REQ_LIVE_P1)
  METER (K_DESTROY);
  FORALLW (SETDEAD1)
}

Elem *env_op_assign__pE_pcE (Elem *p, const Elem *src)
{
  req_storage_w (p); req_storage_r (src);
  FORALLW (REQ_LIVE_P1) FORALLW (REQ_LIVE_S1)
  METER (K_ASSIGN_COPY);
  int v = nondet_value ();
  if (ASSIGN_COPY_MAY_THROW && nondet_bool ())
    { THROW (EXC_ELEMENT); v = S_MF; FORALLW (SET1) return p; }   /* basic guarantee of T: valid, unspecified */
  FORALLW (GET1)
  FORALLW (SET1)
  return p;
}

Elem *env_op_assign__pE_rrE (Elem *p, Elem *src)
{
  req_storage_w (p); req_storage_r (src);
  FORALLW (REQ_LIVE_P1) FORALLW (REQ_LIVE_S1)
  METER (K_ASSIGN_MOVE);
  int v = nondet_value ();
  if (ASSIGN_MOVE_MAY_THROW && nondet_bool ())
    { THROW (EXC_ELEMENT); v = S_MF; FORALLW (SET1) return p; }
  FORALLW (GET1)
  if (p != src) { FORALLW (SETMF1) }
  FORALLW (SET1)
  return p;
}

void env_swap__pE_pE (Elem *p, Elem *q)
{
  req_storage_w (p); req_storage_w (q);
  const Elem *src = q;
  FORALLW (REQ_LIVE_P1) FORALLW (REQ_LIVE_S1)
  METER (K_SWAP);
  if (SWAP_MAY_THROW && nondet_bool ()) { THROW (EXC_ELEMENT); return; }
  int v = nondet_value ();
  FORALLW (GET1)
  int v2 = nondet_value ();
#define GETP1(i) if (p == WP[i]) { v2 = WS[i]; }
  FORALLW (GETP1)
  FORALLW (SET1)
#define SETQ1(i) if (q == WP[i]) { WS[i] = v2; }
  FORALLW (SETQ1)
}

_Bool env_op_eq__pcE_pcE (const Elem *p, const Elem *src)
{
  req_storage_r (p); req_storage_r (src);
  FORALLW (REQ_LIVE_P1) FORALLW (REQ_LIVE_S1)
  METER (K_COMPARE);
  int v = S_MF, v2 = S_MF;
  FORALLW (GET1) FORALLW (GETP1)
  if (v == S_MF || v2 == S_MF) return nondet_bool ();
  return v == v2;
}

_Bool env_op_lt__pcE_pcE (const Elem *p, const Elem *src)
{
  req_storage_r (p); req_storage_r (src);
  FORALLW (REQ_LIVE_P1) FORALLW (REQ_LIVE_S1)
  METER (K_COMPARE);
  int v = S_MF, v2 = S_MF;
  FORALLW (GET1) FORALLW (GETP1)
  if (v == S_MF || v2 == S_MF) return nondet_bool ();
  return v2 < v;
}

/* ---- allocator ------------------------------------------------------------------------------ */
static Elem *do_allocate (struct Alloc *a, unsigned long n)
{
  __CPROVER_assert (n <= ALLOC_MAX, "[C12] allocate (n) called with n > max_size ()");
  alloc_calls++;
  if (nondet_bool ()) { THROW (EXC_BAD_ALLOC); return nondet_elem_ptr (); }
  Elem *p = malloc (n * ESZ);
  __CPROVER_assume (p != 0);
#define FRESHBLK1(i) __CPROVER_assume (!(SAMEOBJ (WP[i], p) && LIVE (i)));
  FORNW (FRESHBLK1)
  if (WB == p) { __CPROVER_assume (!WBL); WBL = 1; WBN = n; WBA = a->id; }
  return p;
}

Elem *env_allocate__pA_ul (struct Alloc *a, unsigned long n) { return do_allocate (a, n); }
Elem *env_allocate__pA_ul_pcv (struct Alloc *a, unsigned long n, const void *hint) { (void) hint; return do_allocate (a, n); }

void env_deallocate__pA_pE_ul (struct Alloc *a, Elem *p, unsigned long n)
{
  __CPROVER_assert (p != 0 && __CPROVER_DYNAMIC_OBJECT (p) && OFF (p) == 0, "[C04] deallocate of a pointer that is not the start of an allocator block");
  __CPROVER_assert (__CPROVER_OBJECT_SIZE (p) == n * ESZ, "[C04] deallocate with an element count different from the allocation's");
  __CPROVER_assert (!(p == WB && !(WBL && WBN == n)), "[C04] deallocate of a block that is not live with this count");
  __CPROVER_assert (!(p == WB && WBA != a->id), "[C04,C07] deallocate through an allocator not equal to the one that allocated the block");
#define NOLIVE1(i) __CPROVER_assert (!(SAMEOBJ (WP[i], p) && LIVE (i)), "[C03] block given back while it still holds a live element");
  FORALLW (NOLIVE1)
  dealloc_calls++;
  free (p);
  if (p == WB) WBL = 0;
}

unsigned long env_max_size__pcA (const struct Alloc *a) { (void) a; return ALLOC_MAX; }

int __CPROVER_uninterpreted_soccc (int);
struct Alloc env_select_on_container_copy_construction__pcA (const struct Alloc *a)
{
  struct Alloc r; r.id = __CPROVER_uninterpreted_soccc (a->id); return r;
}

_Bool env_op_eq__pcA_pcA (const struct Alloc *a, const struct Alloc *b)
{
#ifdef ALLOC_ALWAYS_EQUAL
  return 1;
#else
  return a->id == b->id;
#endif
}

void env_swap__pA_pA (struct Alloc *a, struct Alloc *b) { struct Alloc t = *a; *a = *b; *b = t; }

/* ---- scalars --------------------------------------------------------------------------------- */
const unsigned long *env_min__pcul_pcul (const unsigned long *a, const unsigned long *b) { return (*b < *a) ? b : a; }
void env_swap__ppE_ppE (Elem **a, Elem **b) { Elem *t = *a; *a = *b; *b = t; }
void env_swap__pul_pul (unsigned long *a, unsigned long *b) { unsigned long t = *a; *a = *b; *b = t; }
void env_advance__ppE_l (Elem **it, long n) { *it = *it + n; }
void env_advance__ppcE_l (const Elem **it, long n) { *it = *it + n; }
long env_distance__pE_pE (Elem *first, Elem *last) { return last - first; }
long env_distance__pcE_pcE (const Elem *first, const Elem *last) { return last - first; }
