/* Executable specifications of the boundary operations (see env.h). */
#include <stdlib.h>
#include "env.h"

_Bool exc; int exc_kind;
unsigned int CAP_N, CAP_M; unsigned long ALLOC_MAX;
Elem *WP[NW + 1]; int WS[NW + 1];
Elem *WB; int WBL; unsigned long WBN; int WBA;
unsigned long alloc_calls, dealloc_calls, gen_calls; unsigned int used_kinds;
const Elem *S_CUR, *S_END; int S_DEREF_DONE; const Elem *F_END;

#define FORALLW(X) X (0) X (1) X (2)
#define FORNW(X)   X (0) X (1)
#define THROW(kind) do { exc = 1; exc_kind = (kind); } while (0)
#define METER(k) do { used_kinds |= (k); } while (0)

/* ---- cell helpers ------------------------------------------------------------------------- */
#define REQ_RAW1(i)  __CPROVER_assert (!(p == WP[i] && LIVE (i)), "[C03] element constructed over a live element");
#define REQ_LIVE_P1(i) __CPROVER_assert (!(p == WP[i] && RAW (i)), "[C03] operation on storage that holds no live element");
#define REQ_LIVE_S1(i) __CPROVER_assert (!(src == WP[i] && RAW (i)), "[C03] read of storage that holds no live element");
#define GET1(i) if (src == WP[i]) { v = WS[i]; }
#define SET1(i) if (p == WP[i]) { WS[i] = v; }
#define SETMF1(i) if (src == WP[i]) { WS[i] = S_MF; }
#define SETDEAD1(i) if (p == WP[i]) { WS[i] = S_RAW; }
static int nondet_value (void) { int v = nondet_int (); __CPROVER_assume (v != S_RAW); return v; }   /* some live state */

static void req_storage_w (const void *p) { __CPROVER_assert (__CPROVER_w_ok (p, ESZ), "[C03,C12,C13] element storage lies inside memory the container owns"); }
static void req_storage_r (const void *p) { __CPROVER_assert (__CPROVER_r_ok (p, ESZ), "[C03,C13] element read lies inside a live object"); }

void env_fresh_object (const void *obj)
{
#define FRESH1(i) __CPROVER_assume (!(SAMEOBJ (WP[i], obj) && LIVE (i)));
  FORNW (FRESH1)
}

void env_track_temp (Elem *cell)
{
  WP[WT] = cell; WS[WT] = S_RAW;
}

void env_untrack_temp (void)
{
  __CPROVER_assert (WS[WT] == S_RAW, "[C03] temporary destroyed while its element is still alive");
  WP[WT] = 0;
}

/* ---- element operations -------------------------------------------------------------------- */
void env_elem_construct_default (Elem *p)
{
  req_storage_w (p);
  FORALLW (REQ_RAW1)
  METER (K_DEFAULT);
  if (DEFAULT_MAY_THROW && nondet_bool ()) { THROW (EXC_ELEMENT); return; }
  int v = 0;
  FORALLW (SET1)
}

void env_elem_construct_copy (Elem *p, const Elem *src)
{
  req_storage_w (p); req_storage_r (src);
  FORALLW (REQ_RAW1) FORALLW (REQ_LIVE_S1)
  METER (K_COPY);
  if (COPY_MAY_THROW && nondet_bool ()) { THROW (EXC_ELEMENT); return; }
  int v = nondet_value ();
  FORALLW (GET1)
  FORALLW (SET1)
}

void env_elem_construct_move (Elem *p, Elem *src)
{
  req_storage_w (p); req_storage_r (src);
  FORALLW (REQ_RAW1) FORALLW (REQ_LIVE_S1)
  METER (K_MOVE);
  if (MOVE_MAY_THROW && nondet_bool ()) { THROW (EXC_ELEMENT); return; }
  int v = nondet_value ();
  FORALLW (GET1)
  FORALLW (SETMF1)
  FORALLW (SET1)
}

void env_elem_construct_int (Elem *p, int x)
{
  req_storage_w (p);
  FORALLW (REQ_RAW1)
  METER (K_CONVERT);
  if (COPY_MAY_THROW && nondet_bool ()) { THROW (EXC_ELEMENT); return; }
  int v = x;
  if (v == S_RAW || v == S_MF) v = 0;
  FORALLW (SET1)
}

void env_elem_destroy (Elem *p)
{
  req_storage_w (p);
  FORALLW (REQ_LIVE_P1)
  METER (K_DESTROY);
  FORALLW (SETDEAD1)
}

Elem *env_op_assign__pE_pcE (Elem *p, const Elem *src)
{
  req_storage_w (p); req_storage_r (src);
  FORALLW (REQ_LIVE_P1) FORALLW (REQ_LIVE_S1)
  METER (K_ASSIGN_COPY);
  int v = nondet_value ();
  if (ASSIGN_COPY_MAY_THROW && nondet_bool ())
    { THROW (EXC_ELEMENT); v = S_MF; FORALLW (SET1) return p; }   /* basic guarantee of T: valid, unspecified */
  FORALLW (GET1)
  FORALLW (SET1)
  return p;
}

Elem *env_op_assign__pE_rrE (Elem *p, Elem *src)
{
  req_storage_w (p); req_storage_r (src);
  FORALLW (REQ_LIVE_P1) FORALLW (REQ_LIVE_S1)
  METER (K_ASSIGN_MOVE);
  int v = nondet_value ();
  if (ASSIGN_MOVE_MAY_THROW && nondet_bool ())
    { THROW (EXC_ELEMENT); v = S_MF; FORALLW (SET1) return p; }
  FORALLW (GET1)
  if (p != src) { FORALLW (SETMF1) }
  FORALLW (SET1)
  return p;
}

void env_swap__pE_pE (Elem *p, Elem *q)
{
  req_storage_w (p); req_storage_w (q);
  const Elem *src = q;
  FORALLW (REQ_LIVE_P1) FORALLW (REQ_LIVE_S1)
  METER (K_SWAP);
  if (SWAP_MAY_THROW && nondet_bool ()) { THROW (EXC_ELEMENT); return; }
  int v = nondet_value ();
  FORALLW (GET1)
  int v2 = nondet_value ();
#define GETP1(i) if (p == WP[i]) { v2 = WS[i]; }
  FORALLW (GETP1)
  FORALLW (SET1)
#define SETQ1(i) if (q == WP[i]) { WS[i] = v2; }
  FORALLW (SETQ1)
}

_Bool env_op_eq__pcE_pcE (const Elem *p, const Elem *src)
{
  req_storage_r (p); req_storage_r (src);
  FORALLW (REQ_LIVE_P1) FORALLW (REQ_LIVE_S1)
  METER (K_COMPARE);
  int v = S_MF, v2 = S_MF;
  FORALLW (GET1) FORALLW (GETP1)
  if (v == S_MF || v2 == S_MF) return nondet_bool ();
  return v == v2;
}

_Bool env_op_lt__pcE_pcE (const Elem *p, const Elem *src)
{
  req_storage_r (p); req_storage_r (src);
  FORALLW (REQ_LIVE_P1) FORALLW (REQ_LIVE_S1)
  METER (K_COMPARE);
  int v = S_MF, v2 = S_MF;
  FORALLW (GET1) FORALLW (GETP1)
  if (v == S_MF || v2 == S_MF) return nondet_bool ();
  return v2 < v;
}

#define NOT_IN_RANGE_PTR(p, lo, hi) (!SAMEOBJ (p, lo) || OFF (p) < OFF (lo) || OFF (p) >= OFF (hi))

/* ---- allocator ------------------------------------------------------------------------------ */
static Elem *do_allocate (struct Alloc *a, unsigned long n)
{
  __CPROVER_assert (n <= ALLOC_MAX, "[C12] allocate (n) called with n > max_size ()");
  alloc_calls++;
  if (ALLOC_MAY_THROW && nondet_bool ()) { THROW (EXC_BAD_ALLOC); return nondet_elem_ptr (); }
  Elem *p = malloc (n * ESZ);
  __CPROVER_assume (p != 0);
#define FRESHBLK1(i) __CPROVER_assume (!(SAMEOBJ (WP[i], p) && LIVE (i)));
  FORNW (FRESHBLK1)
  if (WB == p) { __CPROVER_assume (!WBL); WBL = 1; WBN = n; WBA = a->id; }
  return p;
}

Elem *env_allocate__pA_ul (struct Alloc *a, unsigned long n) { return do_allocate (a, n); }
Elem *env_allocate__pA_ul_pcv (struct Alloc *a, unsigned long n, const void *hint) { (void) hint; return do_allocate (a, n); }

void env_deallocate__pA_pE_ul (struct Alloc *a, Elem *p, unsigned long n)
{
  __CPROVER_assert (p != 0 && __CPROVER_DYNAMIC_OBJECT (p) && OFF (p) == 0, "[C04] deallocate of a pointer that is not the start of an allocator block");
  __CPROVER_assert (__CPROVER_OBJECT_SIZE (p) == n * ESZ, "[C04] deallocate with an element count different from the allocation's");
  __CPROVER_assert (!(p == WB && !(WBL && WBN == n)), "[C04] deallocate of a block that is not live with this count");
#ifndef ALLOC_ALWAYS_EQUAL
  __CPROVER_assert (!(p == WB && WBA != a->id), "[C04,C07] deallocate through an allocator not equal to the one that allocated the block");
#endif
#define NOLIVE1(i) __CPROVER_assert (!(SAMEOBJ (WP[i], p) && LIVE (i)), "[C03] block given back while it still holds a live element");
  FORALLW (NOLIVE1)
  dealloc_calls++;
  /* deallocation as CBMC's own free () records it (one nondeterministically chosen freed object), without the library call:
     measured 3x smaller formulas under DFCC; use-after-free still fails w_ok/r_ok and the pointer checks */
  __CPROVER_assert (!SAMEOBJ (p, __CPROVER_deallocated), "[C04] block given back twice");
  if (nondet_bool ()) __CPROVER_deallocated = p;
  if (p == WB) WBL = 0;
}

Elem *env_allocate__pA_uc (struct Alloc *a, unsigned char n) { return do_allocate (a, n); }
Elem *env_allocate__pA_uc_pcv (struct Alloc *a, unsigned char n, const void *hint) { (void) hint; return do_allocate (a, n); }
void env_deallocate__pA_pE_uc (struct Alloc *a, Elem *p, unsigned char n) { env_deallocate__pA_pE_ul (a, p, n); }
const unsigned char *env_min__pcuc_pcuc (const unsigned char *a, const unsigned char *b) { return (*b < *a) ? b : a; }
void env_swap__puc_puc (unsigned char *a, unsigned char *b) { unsigned char t = *a; *a = *b; *b = t; }

unsigned long env_max_size__pcA (const struct Alloc *a) { (void) a; return ALLOC_MAX; }

int __CPROVER_uninterpreted_soccc (int);
struct Alloc env_select_on_container_copy_construction__pcA (const struct Alloc *a)
{
  struct Alloc r; r.id = __CPROVER_uninterpreted_soccc (a->id); return r;
}

_Bool env_op_eq__pcA_pcA (const struct Alloc *a, const struct Alloc *b)
{
#ifdef ALLOC_ALWAYS_EQUAL
  return 1;
#else
  return a->id == b->id;
#endif
}

void env_swap__pA_pA (struct Alloc *a, struct Alloc *b) { struct Alloc t = *a; *a = *b; *b = t; }

/* ---- scalars --------------------------------------------------------------------------------- */
const unsigned long *env_min__pcul_pcul (const unsigned long *a, const unsigned long *b) { return (*b < *a) ? b : a; }
void env_swap__ppE_ppE (Elem **a, Elem **b) { Elem *t = *a; *a = *b; *b = t; }
void env_swap__pul_pul (unsigned long *a, unsigned long *b) { unsigned long t = *a; *a = *b; *b = t; }
void env_advance__ppE_l (Elem **it, long n) { if (n != 0) *it = *it + n; }   /* p + 0 is defined for every p in C++, the null pointer included */
void env_advance__ppcE_l (const Elem **it, long n) { if (n != 0) *it = *it + n; }
long env_distance__pE_pE (Elem *first, Elem *last) { return last - first; }
long env_distance__pcE_pcE (const Elem *first, const Elem *last) { return last - first; }

/* ---- libstdc++ algorithms on element ranges: summaries over the watched cells ------------------
 * std::copy / std::move / std::move_backward / std::copy_n / std::fill / std::fill_n / std::swap_ranges.
 * Effects as [alg.copy], [alg.move], [alg.fill], [alg.swap]: element-wise assignment in index order
 * (reverse order for move_backward); a throwing assignment stops the algorithm after `done` elements.
 * Preconditions are the standard's plus the lifetime rules (assignment needs live source and destination). */
static unsigned long pick_done (unsigned long n, int may_throw, _Bool *threw)
{
  *threw = 0;
  if (may_throw && n != 0 && nondet_bool ())
    { unsigned long k = nondet_ulong (); __CPROVER_assume (k < n); *threw = 1; return k; }
  return n;
}

#define REQ_RANGE(first, last, what) do { \
  __CPROVER_assert (SAMEOBJ (first, last) && OFF (first) <= OFF (last) && ALIGNED (OFF (last) - OFF (first)), "[C03,C13] " what ": not a valid range of element cells"); } while (0)
#define REQ_LIVE_RANGE1(i, lo, hi) __CPROVER_assert (!(IN_PTRS (WP[i], lo, hi) && RAW (i)), "[C03] algorithm assigns to or reads from storage that holds no live element");

/* assignment of n elements from [src, src+n) to [dst, dst+n); backward: last element first.
   move: sources are left moved-from.  Returns the number of elements fully assigned. */
static unsigned long range_assign (Elem *dst, const Elem *src, unsigned long n, int move, int backward, int may_throw, unsigned kind)
{
  if (n == 0) return 0;       /* empty ranges may be null */
  const Elem *src_end = src + n; Elem *dst_end = dst + n;
  if (n == 0) return 0;
  __CPROVER_assert (__CPROVER_r_ok (src, n << ESZ_LOG2), "[C03,C13] algorithm reads outside the source elements' storage");
  __CPROVER_assert (__CPROVER_w_ok (dst, n << ESZ_LOG2), "[C03,C12,C13] algorithm writes outside the destination elements' storage");
#define RA_LIVE(i) REQ_LIVE_RANGE1 (i, src, src_end) REQ_LIVE_RANGE1 (i, dst, dst_end)
  FORALLW (RA_LIVE)
  if (n != 0) used_kinds |= kind;
  _Bool threw; unsigned long done = pick_done (n, may_throw, &threw);
  /* byte offsets (relative to the range start) that were processed: forward [0, done), backward [n - done, n);
     the failing element gets an unspecified value */
  unsigned long lo = (backward ? n - done : 0) << ESZ_LOG2, hi = (backward ? n : done) << ESZ_LOG2;
  unsigned long bad = threw ? ((backward ? (n - done - 1) : done) << ESZ_LOG2) : 0;
  int o0 = WS[0], o1 = WS[1], o2 = WS[2];
#define BOFF(p, base) (OFF (p) - OFF (base))
#define SRC_IS(j, i) (SAMEOBJ (WP[j], src) && OFF (WP[j]) >= OFF (src) && BOFF (WP[j], src) == BOFF (WP[i], dst))
#define RA_NEW(i) \
  if (IN_PTRS (WP[i], dst, dst_end) && BOFF (WP[i], dst) >= lo && BOFF (WP[i], dst) < hi) \
    { int v = nondet_value (); \
      if (SRC_IS (0, i)) v = o0; if (SRC_IS (1, i)) v = o1; if (SRC_IS (2, i)) v = o2; \
      WS[i] = v; } \
  else if (threw && IN_PTRS (WP[i], dst, dst_end) && BOFF (WP[i], dst) == bad) WS[i] = S_MF; \
  else if (move && IN_PTRS (WP[i], src, src_end) && ((BOFF (WP[i], src) >= lo && BOFF (WP[i], src) < hi) || (threw && BOFF (WP[i], src) == bad)) \
           && !(SAMEOBJ (src, dst) && OFF (src) == OFF (dst))) WS[i] = S_MF;
  FORALLW (RA_NEW)
  if (threw) THROW (EXC_ELEMENT);
  return done;
}

Elem *env_copy__pcE_pcE_pE (const Elem *first, const Elem *last, Elem *d)
{
  REQ_RANGE (first, last, "std::copy");
  __CPROVER_assert (NOT_IN_RANGE_PTR (d, first, last), "[C03] std::copy: destination begins inside the source range");
  unsigned long n = DIVESZ (OFF (last) - OFF (first));
  return d + range_assign (d, first, n, 0, 0, ASSIGN_COPY_MAY_THROW, K_ASSIGN_COPY);
}
Elem *env_copy__pE_pE_pE (Elem *first, Elem *last, Elem *d) { return env_copy__pcE_pcE_pE (first, last, d); }

Elem *env_copy_n__pcE_ul_pE (const Elem *first, unsigned long n, Elem *d)
{
  return d + range_assign (d, first, n, 0, 0, ASSIGN_COPY_MAY_THROW, K_ASSIGN_COPY);
}

Elem *env_move__pE_pE_pE (Elem *first, Elem *last, Elem *d)
{
  REQ_RANGE (first, last, "std::move");
  __CPROVER_assert (NOT_IN_RANGE_PTR (d, first, last), "[C03] std::move: destination begins inside the source range");
  unsigned long n = DIVESZ (OFF (last) - OFF (first));
  return d + range_assign (d, first, n, 1, 0, ASSIGN_MOVE_MAY_THROW, K_ASSIGN_MOVE);
}

Elem *env_move_backward__pE_pE_pE (Elem *first, Elem *last, Elem *d_last)
{
  if (first == last) return d_last;
  REQ_RANGE (first, last, "std::move_backward");
  __CPROVER_assert (!(SAMEOBJ (d_last, first) && OFF (d_last) > OFF (first) && OFF (d_last) <= OFF (last)), "[C03] std::move_backward: destination end inside (first, last]");
  unsigned long n = DIVESZ (OFF (last) - OFF (first));
  unsigned long done = range_assign (d_last - n, first, n, 1, 1, ASSIGN_MOVE_MAY_THROW, K_ASSIGN_MOVE);
  return d_last - done;
}

/* fill: every element of [first, last) is assigned the (current) value of *val */
static unsigned long range_fill (Elem *first, unsigned long n, const Elem *val)
{
  if (n == 0) return 0;
  Elem *last = first + n;
  __CPROVER_assert (__CPROVER_w_ok (first, n << ESZ_LOG2), "[C03,C12,C13] fill writes outside the elements' storage");
  req_storage_r (val);
#ifdef ELEM_TRIVIAL
/* trivially copyable (implicit-lifetime) element type: assigning into raw storage starts the lifetime */
#define RF_DEST_LIVE(i)
#else
#define RF_DEST_LIVE(i) REQ_LIVE_RANGE1 (i, first, last)
#endif
#define RF_LIVE(i) RF_DEST_LIVE (i) __CPROVER_assert (!(val == WP[i] && RAW (i)), "[C03] fill reads a value from storage that holds no live element");
  FORALLW (RF_LIVE)
  if (n != 0) used_kinds |= K_ASSIGN_COPY;
  _Bool threw; unsigned long done = pick_done (n, ASSIGN_COPY_MAY_THROW, &threw);
  int v = nondet_value ();
  if (val == WP[0]) v = WS[0]; if (val == WP[1]) v = WS[1]; if (val == WP[2]) v = WS[2];
  /* if *val is itself inside the filled range its value is first overwritten by itself: unchanged */
#define RF_NEW(i) \
  if (IN_PTRS (WP[i], first, last) && IDX (WP[i], first) < done) WS[i] = v; \
  else if (threw && IN_PTRS (WP[i], first, last) && IDX (WP[i], first) == done) WS[i] = S_MF;
  FORALLW (RF_NEW)
  if (threw) THROW (EXC_ELEMENT);
  return done;
}

void env_fill__pE_pE_pcE (Elem *first, Elem *last, const Elem *val)
{
  REQ_RANGE (first, last, "std::fill");
  range_fill (first, DIVESZ (OFF (last) - OFF (first)), val);
}

Elem *env_fill_n__pE_ul_pcE (Elem *first, unsigned long n, const Elem *val)
{
  return first + range_fill (first, n, val);
}

Elem *env_swap_ranges__pE_pE_pE (Elem *first, Elem *last, Elem *first2)
{
  REQ_RANGE (first, last, "std::swap_ranges");
  unsigned long n = DIVESZ (OFF (last) - OFF (first));
  Elem *last2 = first2 + n;
  __CPROVER_assert (__CPROVER_w_ok (first, n << ESZ_LOG2) && __CPROVER_w_ok (first2, n << ESZ_LOG2), "[C03,C13] swap_ranges touches memory outside the elements' storage");
  __CPROVER_assert (!SAMEOBJ (first, first2) || OFF (last) <= OFF (first2) || OFF (last2) <= OFF (first), "[C03] swap_ranges: overlapping ranges");
#define SR_LIVE(i) REQ_LIVE_RANGE1 (i, first, last) REQ_LIVE_RANGE1 (i, first2, last2)
  FORALLW (SR_LIVE)
  if (n != 0) used_kinds |= K_SWAP;
  _Bool threw; unsigned long done = pick_done (n, SWAP_MAY_THROW, &threw);
  int o0 = WS[0], o1 = WS[1], o2 = WS[2];
#define SR_NEW(i) \
  if (IN_PTRS (WP[i], first, last) && IDX (WP[i], first) < done) \
    { int v = nondet_value (); unsigned long k = IDX (WP[i], first); \
      if (WP[0] == first2 + k) v = o0; if (WP[1] == first2 + k) v = o1; if (WP[2] == first2 + k) v = o2; WS[i] = v; } \
  else if (IN_PTRS (WP[i], first2, last2) && IDX (WP[i], first2) < done) \
    { int v = nondet_value (); unsigned long k = IDX (WP[i], first2); \
      if (WP[0] == first + k) v = o0; if (WP[1] == first + k) v = o1; if (WP[2] == first + k) v = o2; WS[i] = v; } \
  else if (threw && ((IN_PTRS (WP[i], first, last) && IDX (WP[i], first) == done) || (IN_PTRS (WP[i], first2, last2) && IDX (WP[i], first2) == done))) WS[i] = S_MF;
  FORALLW (SR_NEW)
  if (threw) THROW (EXC_ELEMENT);
  return first2 + done;
}

/* ---- caller's iterators (C15): protocol violations are failed preconditions ------------------------ */
#define ITER_THROW() if (ITER_MAY_THROW && nondet_bool ()) { THROW (EXC_ITERATOR); }

_Bool env_op_eq__pcII_pcII (const struct InputIt *a, const struct InputIt *b)
{
  __CPROVER_assert ((a->cur == S_CUR || a->cur == S_END) && (b->cur == S_CUR || b->cur == S_END), "[C15] comparison uses a copy of an input iterator that was already advanced");
  if (ITER_MAY_THROW && nondet_bool ()) { THROW (EXC_ITERATOR); return nondet_bool (); }
  return a->cur == b->cur;
}

const Elem *env_op_deref__pII (struct InputIt *it)
{
  __CPROVER_assert (it->cur == S_CUR, "[C15] dereference of a copy of an input iterator that was already advanced");
  __CPROVER_assert (it->cur != S_END, "[C15] input iterator dereferenced at or beyond last");
  __CPROVER_assert (!S_DEREF_DONE, "[C15] a position of a single-pass range is dereferenced twice");
  if (ITER_MAY_THROW && nondet_bool ()) { THROW (EXC_ITERATOR); return it->cur; }
  S_DEREF_DONE = 1;
  return it->cur;
}

struct InputIt *env_op_inc__pII (struct InputIt *it)
{
  __CPROVER_assert (it->cur == S_CUR, "[C15] increment of a copy of an input iterator that was already advanced");
  __CPROVER_assert (it->cur != S_END, "[C15] input iterator advanced at or beyond last");
  __CPROVER_assert (S_DEREF_DONE, "[C15] a position of a single-pass range is skipped without being read");
  if (ITER_MAY_THROW && nondet_bool ()) { THROW (EXC_ITERATOR); return it; }
  S_CUR = S_CUR + 1; it->cur = S_CUR; S_DEREF_DONE = 0;
  return it;
}

/* std::advance / std::next on a single-pass iterator: n increments, each needing the position to have been read */
void env_advance__pII_l (struct InputIt *it, long n)
{
  __CPROVER_assert (n >= 0, "[C15] input iterator moved backwards");
  if (n == 0) return;
  __CPROVER_assert (it->cur == S_CUR, "[C15] increment of a copy of an input iterator that was already advanced");
  __CPROVER_assert (SAMEOBJ (S_CUR, S_END) && OFF (S_CUR) + ((unsigned long) n << ESZ_LOG2) <= OFF (S_END), "[C15] input iterator advanced at or beyond last");
  __CPROVER_assert (S_DEREF_DONE && n == 1, "[C15] a position of a single-pass range is skipped without being read");
  if (ITER_MAY_THROW && nondet_bool ()) { THROW (EXC_ITERATOR); return; }
  S_CUR = S_CUR + n; it->cur = S_CUR; S_DEREF_DONE = 0;
}

_Bool env_op_eq__pcFI_pcFI (const struct FwdIt *a, const struct FwdIt *b)
{
  if (ITER_MAY_THROW && nondet_bool ()) { THROW (EXC_ITERATOR); return nondet_bool (); }
  return a->cur == b->cur;
}

const Elem *env_op_deref__pFI (struct FwdIt *it)
{
  __CPROVER_assert (SAMEOBJ (it->cur, F_END) && OFF (it->cur) < OFF (F_END), "[C15] forward iterator dereferenced at or beyond last");
  if (ITER_MAY_THROW && nondet_bool ()) { THROW (EXC_ITERATOR); return it->cur; }
  return it->cur;
}

struct FwdIt *env_op_inc__pFI (struct FwdIt *it)
{
  __CPROVER_assert (SAMEOBJ (it->cur, F_END) && OFF (it->cur) < OFF (F_END), "[C15] forward iterator advanced beyond last");
  if (ITER_MAY_THROW && nondet_bool ()) { THROW (EXC_ITERATOR); return it; }
  it->cur = it->cur + 1;
  return it;
}

long env_distance__FI_FI (struct FwdIt first, struct FwdIt last)
{
  __CPROVER_assert (SAMEOBJ (first.cur, last.cur) && OFF (first.cur) <= OFF (last.cur) && SAMEOBJ (last.cur, F_END) && OFF (last.cur) <= OFF (F_END), "[C15] std::distance on a forward range whose last is not reachable from first");
  if (ITER_MAY_THROW && nondet_bool ()) { THROW (EXC_ITERATOR); return 0; }
  return last.cur - first.cur;
}

void env_advance__pFI_l (struct FwdIt *it, long n)
{
  __CPROVER_assert (n >= 0 && SAMEOBJ (it->cur, F_END) && OFF (it->cur) + ((unsigned long) n << ESZ_LOG2) <= OFF (F_END), "[C15] forward iterator advanced beyond last");
  if (ITER_MAY_THROW && nondet_bool ()) { THROW (EXC_ITERATOR); return; }
  it->cur = it->cur + n;
}

Elem *env_copy__FI_FI_pE (struct FwdIt first, struct FwdIt last, Elem *d)
{
  __CPROVER_assert (SAMEOBJ (first.cur, last.cur) && OFF (first.cur) <= OFF (last.cur) && SAMEOBJ (last.cur, F_END) && OFF (last.cur) <= OFF (F_END), "[C15] std::copy on a forward range whose last is not reachable from first");
  unsigned long n = DIVESZ (OFF (last.cur) - OFF (first.cur));
  return d + range_assign (d, first.cur, n, 0, 0, ASSIGN_COPY_MAY_THROW || ITER_MAY_THROW, K_ASSIGN_COPY);
}

/* ---- comparison algorithms on two containers (C16): std::equal, std::lexicographical_compare, std::remove ----------------
 * The result of comparing two element sequences is an uninterpreted boolean, constrained only by what the watched cells show
 * (elements are equal iff their abstract values are equal: assumed of T's operator== / operator<); the call's arguments are
 * recorded so that the contracts can say WHICH ranges were compared, in which order.  Layout of the header's iterator
 * (one pointer member m_ptr) is a must-fire assumption: a different layout in the generated model fails to link. */
struct svcit { const Elem *m_ptr; };
struct svit { Elem *m_ptr; };
const Elem *CMP_F1, *CMP_L1, *CMP_F2, *CMP_L2; int CMP_KIND; _Bool CMP_RESULT; unsigned long cmp_calls; Elem *REM_RESULT;
#define CMP_LIVE1(i) __CPROVER_assert (!((IN_PTRS (WP[i], f1.m_ptr, l1.m_ptr) || IN_PTRS (WP[i], f2.m_ptr, e2)) && (RAW (i) || WS[i] == S_MF)), "[C03,C16] comparison reads an element that is not live (or was moved from)");
#define SAME_IDX(a, fa, b, fb) (OFF (WP[a]) - OFF (fa) == OFF (WP[b]) - OFF (fb))

_Bool env_equal__svcit_svcit_svcit (struct svcit f1, struct svcit l1, struct svcit f2)
{
  __CPROVER_assert (f1.m_ptr == l1.m_ptr || (SAMEOBJ (f1.m_ptr, l1.m_ptr) && OFF (f1.m_ptr) <= OFF (l1.m_ptr) && ALIGNED (OFF (l1.m_ptr) - OFF (f1.m_ptr))), "[C16] std::equal: [first1, last1) is not a valid range");
  unsigned long nbytes = (f1.m_ptr == l1.m_ptr) ? 0 : OFF (l1.m_ptr) - OFF (f1.m_ptr);
  __CPROVER_assert (nbytes == 0 || (__CPROVER_r_ok (f1.m_ptr, nbytes) && __CPROVER_r_ok (f2.m_ptr, nbytes)), "[C03,C16] std::equal reads outside the elements of one of the containers");
  const Elem *e2 = nbytes == 0 ? f2.m_ptr : (const Elem *) ((const char *) f2.m_ptr + nbytes);
  FORALLW (CMP_LIVE1)
  cmp_calls++; CMP_KIND = CMP_EQUAL; CMP_F1 = f1.m_ptr; CMP_L1 = l1.m_ptr; CMP_F2 = f2.m_ptr; CMP_L2 = e2;
  if (COMPARE_MAY_THROW && nondet_bool ()) { THROW (EXC_ELEMENT); return nondet_bool (); }
  _Bool r = nondet_bool ();
  if (nbytes == 0) r = 1;
  /* element-consistency: a watched pair at the same index with different values makes the ranges unequal */
  if (nbytes != 0 && IN_PTRS (WP[0], f1.m_ptr, l1.m_ptr) && IN_PTRS (WP[1], f2.m_ptr, e2) && SAME_IDX (0, f1.m_ptr, 1, f2.m_ptr) && WS[0] != WS[1]) r = 0;
  if (nbytes != 0 && IN_PTRS (WP[1], f1.m_ptr, l1.m_ptr) && IN_PTRS (WP[0], f2.m_ptr, e2) && SAME_IDX (1, f1.m_ptr, 0, f2.m_ptr) && WS[0] != WS[1]) r = 0;
  CMP_RESULT = r;
  return r;
}

_Bool env_lexicographical_compare__svcit_svcit_svcit_svcit (struct svcit f1, struct svcit l1, struct svcit f2, struct svcit l2)
{
  __CPROVER_assert (f1.m_ptr == l1.m_ptr || (SAMEOBJ (f1.m_ptr, l1.m_ptr) && OFF (f1.m_ptr) <= OFF (l1.m_ptr) && ALIGNED (OFF (l1.m_ptr) - OFF (f1.m_ptr))), "[C16] std::lexicographical_compare: [first1, last1) is not a valid range");
  __CPROVER_assert (f2.m_ptr == l2.m_ptr || (SAMEOBJ (f2.m_ptr, l2.m_ptr) && OFF (f2.m_ptr) <= OFF (l2.m_ptr) && ALIGNED (OFF (l2.m_ptr) - OFF (f2.m_ptr))), "[C16] std::lexicographical_compare: [first2, last2) is not a valid range");
  unsigned long n1 = (f1.m_ptr == l1.m_ptr) ? 0 : OFF (l1.m_ptr) - OFF (f1.m_ptr), n2 = (f2.m_ptr == l2.m_ptr) ? 0 : OFF (l2.m_ptr) - OFF (f2.m_ptr);
  __CPROVER_assert ((n1 == 0 || __CPROVER_r_ok (f1.m_ptr, n1)) && (n2 == 0 || __CPROVER_r_ok (f2.m_ptr, n2)), "[C03,C16] std::lexicographical_compare reads outside the elements of one of the containers");
  const Elem *e2 = l2.m_ptr;
  FORALLW (CMP_LIVE1)
  cmp_calls++; CMP_KIND = CMP_LEXLESS; CMP_F1 = f1.m_ptr; CMP_L1 = l1.m_ptr; CMP_F2 = f2.m_ptr; CMP_L2 = l2.m_ptr;
  if (COMPARE_MAY_THROW && nondet_bool ()) { THROW (EXC_ELEMENT); return nondet_bool (); }
  _Bool r = nondet_bool ();
  if (n2 == 0) r = 0;                     /* nothing is less than the empty sequence */
  else if (n1 == 0) r = 1;                /* the empty sequence is less than every non-empty one */
  CMP_RESULT = r;
  return r;
}

/* std::remove (first, last, value): returns r in [first, last]; [first, r) holds the kept elements (in order, [alg.remove]: assumed),
   [r, last) live elements with unspecified (moved-from) values */
struct svit env_remove__svit_svit_pcE (struct svit first, struct svit last, const Elem *value)
{
  struct svit res; res.m_ptr = last.m_ptr;
  __CPROVER_assert (first.m_ptr == last.m_ptr || (SAMEOBJ (first.m_ptr, last.m_ptr) && OFF (first.m_ptr) <= OFF (last.m_ptr) && ALIGNED (OFF (last.m_ptr) - OFF (first.m_ptr))), "[C16] std::remove: [first, last) is not a valid range");
  unsigned long nbytes = (first.m_ptr == last.m_ptr) ? 0 : OFF (last.m_ptr) - OFF (first.m_ptr);
  __CPROVER_assert (__CPROVER_r_ok (value, ESZ), "[C03,C16] std::remove: the value is not readable");
  cmp_calls++; CMP_KIND = CMP_REMOVE; CMP_F1 = first.m_ptr; CMP_L1 = last.m_ptr; CMP_F2 = value; CMP_L2 = 0;
  if (nbytes == 0) { REM_RESULT = last.m_ptr; return res; }
  __CPROVER_assert (__CPROVER_w_ok (first.m_ptr, nbytes), "[C03,C16] std::remove writes outside the container's elements");
#define REM_LIVE1(i) __CPROVER_assert (!(IN_PTRS (WP[i], first.m_ptr, last.m_ptr) && RAW (i)), "[C03,C16] std::remove reads storage that holds no live element");
  FORALLW (REM_LIVE1)
  if ((COMPARE_MAY_THROW || ASSIGN_MOVE_MAY_THROW) && nondet_bool ())
    {
      /* a throwing comparison / move assignment: elements stay live, values unspecified */
#define REM_HAVOC1(i) if (IN_PTRS (WP[i], first.m_ptr, last.m_ptr)) { int v = nondet_value (); WS[i] = v; }
      FORALLW (REM_HAVOC1)
      THROW (EXC_ELEMENT); REM_RESULT = last.m_ptr; return res;
    }
  unsigned long keep = nondet_ulong ();
  __CPROVER_assume (keep <= DIVESZ (nbytes));
  /* a watched element equal to the value cannot be kept at its own place ... the permutation itself is the algorithm's assumed specification */
  FORALLW (REM_HAVOC1)
  used_kinds |= K_ASSIGN_MOVE;
  res.m_ptr = first.m_ptr + keep; REM_RESULT = res.m_ptr;
  return res;
}

/* std::remove_if (first, last, pred): as std::remove; the caller's predicate (recorded: CMP_PRED is the state of the copy that was
   passed) may throw at any element; it is applied to live elements of [first, last) only */
int CMP_PRED;
struct svit env_remove_if__svit_svit_P (struct svit first, struct svit last, struct Pred pred)
{
  struct svit res; res.m_ptr = last.m_ptr;
  __CPROVER_assert (first.m_ptr == last.m_ptr || (SAMEOBJ (first.m_ptr, last.m_ptr) && OFF (first.m_ptr) <= OFF (last.m_ptr) && ALIGNED (OFF (last.m_ptr) - OFF (first.m_ptr))), "[C16] std::remove_if: [first, last) is not a valid range");
  unsigned long nbytes = (first.m_ptr == last.m_ptr) ? 0 : OFF (last.m_ptr) - OFF (first.m_ptr);
  cmp_calls++; CMP_KIND = CMP_REMOVE_IF; CMP_F1 = first.m_ptr; CMP_L1 = last.m_ptr; CMP_F2 = 0; CMP_L2 = 0; CMP_PRED = pred.state;
  if (nbytes == 0) { REM_RESULT = last.m_ptr; return res; }
  __CPROVER_assert (__CPROVER_w_ok (first.m_ptr, nbytes), "[C03,C16] std::remove_if writes outside the container's elements");
#define REMIF_LIVE1(i) __CPROVER_assert (!(IN_PTRS (WP[i], first.m_ptr, last.m_ptr) && RAW (i)), "[C03,C16] std::remove_if reads storage that holds no live element");
  FORALLW (REMIF_LIVE1)
  if (nondet_bool ())
    {
      /* a throwing predicate / move assignment: elements stay live, values unspecified */
      FORALLW (REM_HAVOC1)
      THROW (EXC_ELEMENT); REM_RESULT = last.m_ptr; return res;
    }
  unsigned long keep = nondet_ulong ();
  __CPROVER_assume (keep <= DIVESZ (nbytes));
  FORALLW (REM_HAVOC1)
  used_kinds |= K_ASSIGN_MOVE;
  res.m_ptr = first.m_ptr + keep; REM_RESULT = res.m_ptr;
  return res;
}

/* std::initializer_list<value_type> ([support.initlist.access]): begin () is the first element of the backing array, end () is begin () + size () */
const Elem *env_IL_begin__v (const struct IList *il) { return il->b; }
const Elem *env_IL_end__v (const struct IList *il) { return il->n == 0 ? il->b : il->b + il->n; }
unsigned long env_IL_size__v (const struct IList *il) { return il->n; }

/* generator: the k-th call yields the abstract value GEN_BASE + k */
int GEN_BASE;
void env_op_call__pG_out (struct Gen *g, Elem *out)
{
  (void) g;
  const Elem *src = 0; Elem *p = out;
  req_storage_w (p);
  FORALLW (REQ_RAW1)
  if (nondet_bool ()) { THROW (EXC_GENERATOR); return; }
  int v = GEN_BASE + (int) gen_calls;
  if (v == S_RAW || v == S_MF) v = 0;
  gen_calls++;
  FORALLW (SET1)
}

Elem *env_fill_n__pE_uc_pcE (Elem *first, unsigned char n, const Elem *val) { return env_fill_n__pE_ul_pcE (first, n, val); }
Elem *env_copy_n__pcE_uc_pE (const Elem *first, unsigned char n, Elem *d) { return env_copy_n__pcE_ul_pE (first, n, d); }

/* ---- byte copies (trivially copyable element types only): the destination cells become copies of the source cells,
   whatever they held before (implicit-lifetime types); the frame is the byte ranges themselves (C13) ---------------------- */
static void bytes_copy (void *dst, const void *src, unsigned long nbytes, int may_overlap)
{
  __CPROVER_assert (!CONSTEVAL, "[C08] memcpy / memmove reached during constant evaluation (not a constant expression)");
  __CPROVER_assert (ALIGNED (nbytes), "[C13] byte copy of a fraction of an element");
  if (nbytes == 0) return;
  __CPROVER_assert (__CPROVER_r_ok (src, nbytes), "[C03,C13] byte copy reads outside the source elements' storage");
  __CPROVER_assert (__CPROVER_w_ok (dst, nbytes), "[C03,C12,C13] byte copy writes outside the destination elements' storage");
  __CPROVER_assert (may_overlap || !SAMEOBJ (dst, src) || OFF (dst) + nbytes <= OFF (src) || OFF (src) + nbytes <= OFF (dst), "[C13] memcpy of overlapping ranges");
  used_kinds |= K_BYTES;
  const Elem *s = (const Elem *) src; Elem *d = (Elem *) dst;
  const Elem *s_end = (const Elem *) ((const char *) src + nbytes); Elem *d_end = (Elem *) ((char *) dst + nbytes);
#define BC_LIVE(i) __CPROVER_assert (!(IN_PTRS (WP[i], s, s_end) && RAW (i)), "[C03] byte copy reads storage that holds no live element");
  FORALLW (BC_LIVE)
  int o0 = WS[0], o1 = WS[1], o2 = WS[2];
#define BC_SRC(j, i) (SAMEOBJ (WP[j], s) && OFF (WP[j]) >= OFF (s) && OFF (WP[j]) - OFF (s) == OFF (WP[i]) - OFF (d))
#define BC_NEW(i) if (IN_PTRS (WP[i], d, d_end)) { int v = nondet_value (); if (BC_SRC (0, i)) v = o0; if (BC_SRC (1, i)) v = o1; if (BC_SRC (2, i)) v = o2; WS[i] = v; }
  FORALLW (BC_NEW)
}
void *env_memcpy__pv_pcv_ul (void *dst, const void *src, unsigned long nbytes) { bytes_copy (dst, src, nbytes, 0); return dst; }
void *env_memmove__pv_pcv_ul (void *dst, const void *src, unsigned long nbytes) { bytes_copy (dst, src, nbytes, 1); return dst; }
/* the header's empty destroy overloads for trivially destructible types still end the elements' lifetimes (r15b) */
void env_elem_end_lifetime (Elem *p) { FORALLW (REQ_LIVE_P1) FORALLW (SETDEAD1) }
void env_elem_end_lifetime_range (Elem *first, Elem *last)
{
#define EL_RANGE(i) if (IN_PTRS (WP[i], first, last)) { __CPROVER_assert (LIVE (i), "[C03] destroys storage that holds no live element"); WS[i] = S_RAW; }
  FORALLW (EL_RANGE)
}
