/* Ghost state and specification macros for the C model of gch::small_vector (DESIGN.md section 4).
 * Everything here is specification: the extracted code never reads or writes it directly, only
 * through the environment operations of env.c. */
#ifndef VERIF_GHOST_H
#define VERIF_GHOST_H
#include <stddef.h>
#include <stdint.h>
#include <limits.h>

#ifndef ESZ_LOG2
#define ESZ_LOG2 2
#endif
#define ESZ (1ul << ESZ_LOG2)        /* sizeof (value_type) of the instantiation: a power of two, so that the
                                        cell arithmetic below is shifts and masks (SAT-friendly), never a divider */
#define DIVESZ(x) ((x) >> ESZ_LOG2)
#define ALIGNED(x) (((x) & (ESZ - 1)) == 0)
typedef struct Elem { unsigned char b[ESZ]; } Elem;     /* payload bytes are never read or written (r15) */

struct Alloc   { int id; };                              /* allocator state: identity only */
struct InputIt { const Elem *cur; };                     /* caller's single-pass iterator */
struct FwdIt   { const Elem *cur; };                     /* caller's forward iterator */
struct Gen     { int state; };                           /* caller's generator */
struct Pred    { int state; };                           /* caller's unary predicate (erase_if) */
struct IList   { const Elem *b; unsigned long n; };      /* std::initializer_list<value_type> */
typedef int TAGT;

/* ---- lowered exceptions (r6) -------------------------------------------------------------- */
extern _Bool exc;
extern int   exc_kind;
enum { EXC_NONE = 0, EXC_LENGTH_ERROR, EXC_OUT_OF_RANGE, EXC_ELEMENT, EXC_BAD_ALLOC, EXC_ITERATOR, EXC_GENERATOR };

/* ---- configuration constants (symbolic within the configuration class) -------------------- */
extern unsigned int  CAP_N, CAP_M;   /* inline capacities of the two capacity roles (r5) */
extern unsigned long ALLOC_MAX;      /* allocator_traits::max_size () */
#ifndef CONSTEVAL
#define CONSTEVAL 0                  /* std::is_constant_evaluated () (r10) */
#endif
#ifndef SIZE_T_MAX_CFG
#define SIZE_T_MAX_CFG ULONG_MAX     /* numeric_limits<size_type>::max () */
#endif
#ifndef DIFF_T_MAX_CFG
#define DIFF_T_MAX_CFG LONG_MAX      /* numeric_limits<difference_type>::max () */
#endif
#define NUMERIC_MAX_ul ULONG_MAX
#define NUMERIC_MAX_l  LONG_MAX
#define NUMERIC_MAX_u  UINT_MAX
#define NUMERIC_MAX_i  INT_MAX
#define NUMERIC_MAX_uc UCHAR_MAX
#define NUMERIC_MAX_sc SCHAR_MAX
#define NUMERIC_MAX_s  SHRT_MAX
#define NUMERIC_MAX_us USHRT_MAX
/* get_max_size () as the property states it: min (allocator max, difference_type max) */
#define MAXSZ ((ALLOC_MAX < (unsigned long) DIFF_T_MAX_CFG) ? ALLOC_MAX : (unsigned long) DIFF_T_MAX_CFG)

/* element-operation throw switches, set from the element flavour of the instantiation TU */
#ifndef COPY_MAY_THROW
#define COPY_MAY_THROW 1
#endif
#ifndef MOVE_MAY_THROW
#define MOVE_MAY_THROW 0
#endif
#ifndef DEFAULT_MAY_THROW
#define DEFAULT_MAY_THROW 1
#endif
#ifndef ASSIGN_COPY_MAY_THROW
#define ASSIGN_COPY_MAY_THROW 1
#endif
#ifndef ASSIGN_MOVE_MAY_THROW
#define ASSIGN_MOVE_MAY_THROW 0
#endif
#ifndef SWAP_MAY_THROW
#define SWAP_MAY_THROW 0
#endif
/* allocate () may fail (not in the constant-evaluation class: a throw is not a constant expression) */
#ifndef ALLOC_MAY_THROW
#define ALLOC_MAY_THROW 1
#endif

/* ---- watched cells (section 4.1): NW arbitrary cells + one tracked temporary cell ---------- */
#define NW 2
#define WT 2                          /* index of the tracked temporary cell (stack_/heap_temporary) */
extern Elem *WP[NW + 1];              /* never assigned after the harness chose them (WP[WT] excepted) */
extern int   WS[NW + 1];              /* state of the cell: S_RAW = no element object alive there;
                                         S_MF = a live element with a moved-from (unspecified) value;
                                         anything else = a live element with that abstract value */
#define S_RAW INT_MIN
#define S_MF  (INT_MIN + 1)
#define LIVE(i) (WS[i] != S_RAW)
#define RAW(i)  (WS[i] == S_RAW)
/* ---- watched block ------------------------------------------------------------------------- */
extern Elem *WB; extern int WBL; extern unsigned long WBN; extern int WBA;
/* ---- caller's ranges (C15) --------------------------------------------------------------------
 * A single-pass stream is a range of live source cells [.., S_END) with a current position S_CUR
 * (advanced only by ++ on a current iterator) and a flag "the current position was already dereferenced".
 * A forward range is [.., F_END): it may be re-read, never walked past F_END. */
extern const Elem *S_CUR, *S_END; extern int S_DEREF_DONE;
extern const Elem *F_END;
#ifndef ITER_MAY_THROW
#define ITER_MAY_THROW 1
#endif
/* ---- meters --------------------------------------------------------------------------------- */
extern unsigned long alloc_calls, dealloc_calls, gen_calls;
/* comparison algorithms (C16): the call's arguments and its (uninterpreted, element-consistent) result are recorded */
extern const Elem *CMP_F1, *CMP_L1, *CMP_F2, *CMP_L2; extern int CMP_KIND; extern _Bool CMP_RESULT; extern unsigned long cmp_calls;
enum { CMP_NONE = 0, CMP_EQUAL, CMP_LEXLESS, CMP_REMOVE, CMP_REMOVE_IF };
extern Elem *REM_RESULT; extern int CMP_PRED;
#ifndef COMPARE_MAY_THROW
#define COMPARE_MAY_THROW 1
#endif
extern int GEN_BASE;                  /* the generator's k-th call yields the abstract value GEN_BASE + k */
extern unsigned int  used_kinds;
#define K_DEFAULT 1u
#define K_COPY 2u
#define K_MOVE 4u
#define K_ASSIGN_COPY 8u
#define K_ASSIGN_MOVE 16u
#define K_DESTROY 32u
#define K_SWAP 64u
#define K_CONVERT 128u
#define K_COMPARE 256u
#define K_BYTES 512u
/* only element operations of the kinds in mask were used since entry (C13: requirement minimality; C09: none at all) */
#ifdef ELEM_TRIVIAL
#define K_FAST (K_BYTES | K_ASSIGN_COPY)     /* trivially copyable and assignable twin: byte copies and std::fill are allowed means */
#else
#define K_FAST 0u
#endif
#define ONLY_KINDS(mask)    ((mask) == 0 ? used_kinds == __CPROVER_old (used_kinds) : (used_kinds & ~(unsigned int) ((mask) | K_FAST)) == (__CPROVER_old (used_kinds) & ~(unsigned int) ((mask) | K_FAST)))
#define ONLY_KINDS_LE(mask) ((used_kinds & ~(unsigned int) ((mask) | K_FAST)) == (__CPROVER_loop_entry (used_kinds) & ~(unsigned int) ((mask) | K_FAST)))

/* ---- pointer predicates (quantifier-free, over __CPROVER_same_object / POINTER_OFFSET) ------ */
#define OFF(p)        ((unsigned long) __CPROVER_POINTER_OFFSET (p))
#define SAMEOBJ(p, q) __CPROVER_same_object ((p), (q))
/* p is the address of an element cell inside [lo, lo + n) */
#define IN_RANGE(p, lo, n) \
  (SAMEOBJ ((p), (lo)) && OFF (p) >= OFF (lo) && ALIGNED (OFF (p) - OFF (lo)) && OFF (p) - OFF (lo) < ((unsigned long) (n) << ESZ_LOG2))
/* p is the address of an element cell inside [lo, hi) given as two pointers into one object */
#define IN_PTRS(p, lo, hi) \
  (SAMEOBJ ((p), (lo)) && OFF (p) >= OFF (lo) && OFF (p) < OFF (hi) && ALIGNED (OFF (p) - OFF (lo)))
#define IDX(p, lo)    DIVESZ (OFF (p) - OFF (lo))
#define IFF(a, b)     (((a) != 0) == ((b) != 0))
#define IMPLIES(a, b) (!(a) || (b))
#define PTR_REL(a, op, b) PTR_REL_##op ((a), (b))
#define PTR_REL_LT(a, b) ((a) < (b))
#define PTR_REL_GT(a, b) ((a) > (b))
#define PTR_REL_LE(a, b) ((a) <= (b))
#define PTR_REL_GE(a, b) ((a) >= (b))
#define PTR_DIFF(a, b)   ((a) - (b))

/* ---- lowering support --------------------------------------------------------------------- */
#define NOEXCEPT_VIOLATION(fn) do { __CPROVER_assert (0, "noexcept_violation " fn " [C18]: exception leaves a noexcept function (std::terminate)"); __CPROVER_assume (0); } while (0)
void env_fresh_object (const void *obj);     /* a new local object holds no live element */
void env_track_temp (Elem *cell);
void env_untrack_temp (void);                 /* at the temporary's destruction: its cell must be raw again */            /* the cell of a stack_/heap_temporary becomes WP[WT] */

#endif
