/* Ghost state and specification macros for the C model of gch::small_vector (DESIGN.md section 4).
 * Everything here is specification: the extracted code never reads or writes it directly, only
 * through the environment operations of env.c. */
#ifndef VERIF_GHOST_H
#define VERIF_GHOST_H
#include <stddef.h>
#include <stdint.h>
#include <limits.h>

#ifndef ESZ
#define ESZ 4                       /* sizeof (value_type) of the instantiation */
#endif
typedef struct Elem { unsigned char b[ESZ]; } Elem;     /* payload bytes are never read or written (r15) */

struct Alloc   { int id; };                              /* allocator state: identity only */
struct InputIt { const Elem *cur; };                     /* caller's single-pass iterator */
struct FwdIt   { const Elem *cur; };                     /* caller's forward iterator */
struct Gen     { int state; };                           /* caller's generator */
struct IList   { const Elem *b; unsigned long n; };      /* std::initializer_list<value_type> */
typedef int TAGT;

/* ---- lowered exceptions (r6) -------------------------------------------------------------- */
extern _Bool exc;
extern int   exc_kind;
enum { EXC_NONE = 0, EXC_LENGTH_ERROR, EXC_OUT_OF_RANGE, EXC_ELEMENT, EXC_BAD_ALLOC, EXC_ITERATOR, EXC_GENERATOR };

/* ---- configuration constants (symbolic within the configuration class) -------------------- */
extern unsigned int  CAP_N, CAP_M;   /* inline capacities of the two capacity roles (r5) */
extern unsigned long ALLOC_MAX;      /* allocator_traits::max_size () */
#ifndef CONSTEVAL
#define CONSTEVAL 0                  /* std::is_constant_evaluated () (r10) */
#endif
#ifndef SIZE_T_MAX_CFG
#define SIZE_T_MAX_CFG ULONG_MAX     /* numeric_limits<size_type>::max () */
#endif
#ifndef DIFF_T_MAX_CFG
#define DIFF_T_MAX_CFG LONG_MAX      /* numeric_limits<difference_type>::max () */
#endif
#define NUMERIC_MAX_ul ULONG_MAX
#define NUMERIC_MAX_l  LONG_MAX
#define NUMERIC_MAX_u  UINT_MAX
#define NUMERIC_MAX_i  INT_MAX
#define NUMERIC_MAX_uc UCHAR_MAX
#define NUMERIC_MAX_us USHRT_MAX
/* get_max_size () as the property states it: min (allocator max, difference_type max) */
#define MAXSZ ((ALLOC_MAX < (unsigned long) DIFF_T_MAX_CFG) ? ALLOC_MAX : (unsigned long) DIFF_T_MAX_CFG)

/* element-operation throw switches, set from the element flavour of the instantiation TU */
#ifndef COPY_MAY_THROW
#define COPY_MAY_THROW 1
#endif
#ifndef MOVE_MAY_THROW
#define MOVE_MAY_THROW 0
#endif
#ifndef DEFAULT_MAY_THROW
#define DEFAULT_MAY_THROW 1
#endif
#ifndef ASSIGN_COPY_MAY_THROW
#define ASSIGN_COPY_MAY_THROW 1
#endif
#ifndef ASSIGN_MOVE_MAY_THROW
#define ASSIGN_MOVE_MAY_THROW 0
#endif
#ifndef SWAP_MAY_THROW
#define SWAP_MAY_THROW 0
#endif

/* ---- watched cells (section 4.1): NW arbitrary cells + one tracked temporary cell ---------- */
#define NW 3
#define WT 3                          /* index of the tracked temporary cell (stack_/heap_temporary) */
extern Elem *WP[NW + 1];              /* never assigned after the harness chose them (WP[WT] excepted) */
extern int   WL[NW + 1];              /* an element object is alive in the cell            (0/1) */
extern int   WMF[NW + 1];             /* ... whose value is a moved-from (unspecified) one (0/1) */
extern int   WV[NW + 1];              /* ... otherwise this abstract value */
extern int   WTOUCH[NW + 1];          /* the cell was named by an element operation during the call */
/* ---- watched block ------------------------------------------------------------------------- */
extern Elem *WB; extern int WBL; extern unsigned long WBN; extern int WBA;
/* ---- meters --------------------------------------------------------------------------------- */
extern unsigned long elem_ops, alloc_calls, dealloc_calls, gen_calls;
extern unsigned int  used_kinds;
enum { K_DEFAULT = 1, K_COPY = 2, K_MOVE = 4, K_ASSIGN_COPY = 8, K_ASSIGN_MOVE = 16, K_DESTROY = 32,
       K_SWAP = 64, K_CONVERT = 128, K_COMPARE = 256, K_BYTES = 512 };

/* ---- pointer predicates (quantifier-free, over __CPROVER_same_object / POINTER_OFFSET) ------ */
#define OFF(p)        ((unsigned long) __CPROVER_POINTER_OFFSET (p))
#define SAMEOBJ(p, q) __CPROVER_same_object ((p), (q))
/* p is the address of an element cell inside [lo, lo + n) */
#define IN_RANGE(p, lo, n) \
  (SAMEOBJ ((p), (lo)) && OFF (p) >= OFF (lo) && (OFF (p) - OFF (lo)) % ESZ == 0 && (OFF (p) - OFF (lo)) / ESZ < (unsigned long) (n))
#define IDX(p, lo)    ((OFF (p) - OFF (lo)) / ESZ)
#define IFF(a, b)     (((a) != 0) == ((b) != 0))
#define IMPLIES(a, b) (!(a) || (b))
#define PTR_REL(a, op, b) PTR_REL_##op ((a), (b))
#define PTR_REL_LT(a, b) ((a) < (b))
#define PTR_REL_GT(a, b) ((a) > (b))
#define PTR_REL_LE(a, b) ((a) <= (b))
#define PTR_REL_GE(a, b) ((a) >= (b))
#define PTR_DIFF(a, b)   ((a) - (b))

/* ---- lowering support --------------------------------------------------------------------- */
#define NOEXCEPT_VIOLATION(fn) do { __CPROVER_assert (0, "noexcept_violation " fn " [C18]: exception leaves a noexcept function (std::terminate)"); __CPROVER_assume (0); } while (0)
void env_fresh_object (const void *obj);     /* a new local object holds no live element */
void env_track_temp (Elem *cell);            /* the cell of a stack_/heap_temporary becomes WP[WT] */

#endif
