/* Environment (boundary) operations: the container's parameters - element type, allocator, caller's
 * iterators and generator, libstdc++ algorithms - as executable specifications over the ghost state.
 * These are the ASSUMED contracts of DESIGN.md section 3.5; each is listed as trusted in the evidence.
 * Preconditions are assertions tagged with the property they serve; effects touch ghost state only. */
#ifndef VERIF_ENV_H
#define VERIF_ENV_H
#include "ghost.h"

/* nondeterminism */
_Bool nondet_bool (void); int nondet_int (void); unsigned long nondet_ulong (void); unsigned int nondet_uint (void);
Elem *nondet_elem_ptr (void); long nondet_long (void);

/* element operations (std::allocator_traits::construct/destroy, T's special members) */
void env_elem_construct_default (Elem *p);
void env_elem_construct_copy (Elem *p, const Elem *src);
void env_elem_construct_move (Elem *p, Elem *src);
void env_elem_construct_int (Elem *p, int v);
void env_elem_destroy (Elem *p);
Elem *env_op_assign__pE_pcE (Elem *dst, const Elem *src);
Elem *env_op_assign__pE_rrE (Elem *dst, Elem *src);
void env_swap__pE_pE (Elem *a, Elem *b);
_Bool env_op_eq__pcE_pcE (const Elem *a, const Elem *b);
_Bool env_op_lt__pcE_pcE (const Elem *a, const Elem *b);

/* allocator */
Elem *env_allocate__pA_ul (struct Alloc *a, unsigned long n);
Elem *env_allocate__pA_ul_pcv (struct Alloc *a, unsigned long n, const void *hint);
void env_deallocate__pA_pE_ul (struct Alloc *a, Elem *p, unsigned long n);
unsigned long env_max_size__pcA (const struct Alloc *a);
struct Alloc env_select_on_container_copy_construction__pcA (const struct Alloc *a);
_Bool env_op_eq__pcA_pcA (const struct Alloc *a, const struct Alloc *b);
void env_swap__pA_pA (struct Alloc *a, struct Alloc *b);

/* scalars */
const unsigned long *env_min__pcul_pcul (const unsigned long *a, const unsigned long *b);
void env_swap__ppE_ppE (Elem **a, Elem **b);
void env_swap__pul_pul (unsigned long *a, unsigned long *b);
void env_advance__ppE_l (Elem **it, long n);
void env_advance__ppcE_l (const Elem **it, long n);
long env_distance__pE_pE (Elem *first, Elem *last);
long env_distance__pcE_pcE (const Elem *first, const Elem *last);


/* narrow size_type (8-bit) variants */
Elem *env_allocate__pA_uc (struct Alloc *a, unsigned char n);
Elem *env_allocate__pA_uc_pcv (struct Alloc *a, unsigned char n, const void *hint);
void env_deallocate__pA_pE_uc (struct Alloc *a, Elem *p, unsigned char n);
const unsigned char *env_min__pcuc_pcuc (const unsigned char *a, const unsigned char *b);
void env_swap__puc_puc (unsigned char *a, unsigned char *b);
Elem *env_fill_n__pE_uc_pcE (Elem *first, unsigned char n, const Elem *val);
Elem *env_copy_n__pcE_uc_pE (const Elem *first, unsigned char n, Elem *d);

/* caller's iterators and generator (C15) */
_Bool env_op_eq__pcII_pcII (const struct InputIt *a, const struct InputIt *b);
const Elem *env_op_deref__pII (struct InputIt *it);
struct InputIt *env_op_inc__pII (struct InputIt *it);
void env_advance__pII_l (struct InputIt *it, long n);
_Bool env_op_eq__pcFI_pcFI (const struct FwdIt *a, const struct FwdIt *b);
const Elem *env_op_deref__pFI (struct FwdIt *it);
struct FwdIt *env_op_inc__pFI (struct FwdIt *it);
long env_distance__FI_FI (struct FwdIt first, struct FwdIt last);
void env_advance__pFI_l (struct FwdIt *it, long n);
Elem *env_copy__FI_FI_pE (struct FwdIt first, struct FwdIt last, Elem *d);
void env_op_call__pG_out (struct Gen *g, Elem *out);
/* std::initializer_list<value_type>: an array of n elements starting at b ([support.initlist]) */
const Elem *env_IL_begin__v (const struct IList *il);
const Elem *env_IL_end__v (const struct IList *il);
unsigned long env_IL_size__v (const struct IList *il);
struct svcit; struct svit;
_Bool env_equal__svcit_svcit_svcit (struct svcit f1, struct svcit l1, struct svcit f2);
_Bool env_lexicographical_compare__svcit_svcit_svcit_svcit (struct svcit f1, struct svcit l1, struct svcit f2, struct svcit l2);
struct svit env_remove__svit_svit_pcE (struct svit first, struct svit last, const Elem *value);
struct svit env_remove_if__svit_svit_P (struct svit first, struct svit last, struct Pred pred);

/* byte copies of trivially copyable elements (C13) */
void *env_memcpy__pv_pcv_ul (void *dst, const void *src, unsigned long nbytes);
void *env_memmove__pv_pcv_ul (void *dst, const void *src, unsigned long nbytes);
void env_elem_end_lifetime (Elem *p);
void env_elem_end_lifetime_range (Elem *first, Elem *last);

/* libstdc++ algorithms on element ranges (summaries) */
Elem *env_copy__pcE_pcE_pE (const Elem *first, const Elem *last, Elem *d);
Elem *env_copy__pE_pE_pE (Elem *first, Elem *last, Elem *d);
Elem *env_copy_n__pcE_ul_pE (const Elem *first, unsigned long n, Elem *d);
Elem *env_move__pE_pE_pE (Elem *first, Elem *last, Elem *d);
Elem *env_move_backward__pE_pE_pE (Elem *first, Elem *last, Elem *d_last);
void env_fill__pE_pE_pcE (Elem *first, Elem *last, const Elem *val);
Elem *env_fill_n__pE_ul_pcE (Elem *first, unsigned long n, const Elem *val);
Elem *env_swap_ranges__pE_pE_pE (Elem *first, Elem *last, Elem *first2);

#endif
